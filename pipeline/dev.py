"""dev helper: python3 -m pipeline.dev <crate> [--features f] <harness>...  : run harnesses, print summary."""
import sys, json
from . import kani
from .scratch import Scratch
def main():
    args = sys.argv[1:]
    crate = args.pop(0)
    feats = []
    to = 900
    while args and args[0].startswith("--"):
        a = args.pop(0)
        if a == "--features": feats = args.pop(0).split(",")
        if a == "--timeout": to = int(args.pop(0))
    with Scratch() as sc:
        jobs = [{"crate": crate, "features": feats, "harness": h, "timeout_s": to} for h in args]
        import os
        res = kani.run_many(sc, jobs, "/verif/logs/dev_%d" % os.getpid(), int(os.environ.get("VERIF_JOBS", "8")))
        for h, r in res.items():
            print(h, r["status"], r.get("solver_s"), "checks", r.get("checks"), "covers %s/%s" % (r.get("covers_sat"), r.get("covers")), r.get("reason", "")[:300])
            for f in r.get("failed_checks", [])[:6]:
                print("    FAIL:", f["desc"][:160], f["file"].split("/")[-1], f["line"])
main()
