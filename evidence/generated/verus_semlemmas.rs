
// lane L: lemmas over spec functions mirroring the C18 contracts (see overlay .../batch_semaphore.rs.append.rs)
use vstd::prelude::*;
verus! {

pub struct Sem {
    pub available: nat,        // PermitsAvailable::available()
    pub held: nat,             // permits held by completed, unreleased acquisitions
    pub initial: nat,
    pub added: nat,
    pub queue: Seq<nat>,       // requests of the queued waiters, head first
    pub fair: bool,
}

pub open spec fn conserved(s: Sem) -> bool { s.available + s.held == s.initial + s.added }
/// inv (1) of the source: the head of the queue does not fit
pub open spec fn head_blocked(s: Sem) -> bool { s.queue.len() > 0 ==> s.queue[0] > s.available }

/// contract of try_acquire / first poll (c18_sem_try_acquire_*, c18_acquire_poll_first_*)
pub open spec fn step_try_acquire(s: Sem, n: nat, ok: bool, t: Sem) -> bool {
    &&& ok == ((!s.fair || s.queue.len() == 0) && n <= s.available)
    &&& (ok ==> t == Sem { available: (s.available - n) as nat, held: s.held + n, ..s })
    &&& (!ok ==> t == s)
}
/// contract of enqueue on a failed first poll
pub open spec fn step_enqueue(s: Sem, n: nat, t: Sem) -> bool { t == Sem { queue: s.queue.push(n), ..s } }

/// hand-out from the head of a fair queue (c18_sem_release_fair, c18_sem_remove_waiter_fair_head)
pub open spec fn grant_front(s: Sem) -> Sem
    decreases s.queue.len()
{
    if s.queue.len() > 0 && s.queue[0] <= s.available {
        grant_front(Sem { available: (s.available - s.queue[0]) as nat, held: s.held + s.queue[0], queue: s.queue.drop_first(), ..s })
    } else { s }
}
/// contract of release(n) by a holder (fair: hand-out from the head; unfair: permits stay available)
pub open spec fn step_release(s: Sem, n: nat, t: Sem) -> bool {
    let r = Sem { available: s.available + n, held: (s.held - n) as nat, ..s };
    n <= s.held && t == (if s.fair { grant_front(r) } else { r })
}
/// contract of add_permits(n) (a release that is not matched by an acquisition)
pub open spec fn step_add(s: Sem, n: nat, t: Sem) -> bool {
    let r = Sem { available: s.available + n, added: s.added + n, ..s };
    t == (if s.fair { grant_front(r) } else { r })
}

pub proof fn lemma_grant_front(s: Sem)
    requires conserved(s)
    ensures conserved(grant_front(s)), head_blocked(grant_front(s)),
        grant_front(s).initial == s.initial, grant_front(s).added == s.added,
        // FIFO: what is left is a suffix of the queue (nobody is skipped)
        exists|k: int| 0 <= k <= s.queue.len() && grant_front(s).queue =~= s.queue.subrange(k, s.queue.len() as int),
    decreases s.queue.len()
{
    if s.queue.len() > 0 && s.queue[0] <= s.available {
        let s1 = Sem { available: (s.available - s.queue[0]) as nat, held: s.held + s.queue[0], queue: s.queue.drop_first(), ..s };
        lemma_grant_front(s1);
        let k1 = choose|k: int| 0 <= k <= s1.queue.len() && grant_front(s1).queue =~= s1.queue.subrange(k, s1.queue.len() as int);
        assert(grant_front(s).queue =~= s.queue.subrange(k1 + 1, s.queue.len() as int));
    } else {
        assert(grant_front(s).queue =~= s.queue.subrange(0, s.queue.len() as int));
    }
}

/// conservation is an invariant of every contract step
pub proof fn lemma_conservation(s: Sem, n: nat, ok: bool, t: Sem)
    requires conserved(s),
        step_try_acquire(s, n, ok, t) || step_enqueue(s, n, t) || step_release(s, n, t) || step_add(s, n, t),
    ensures conserved(t), t.initial == s.initial, t.added >= s.added,
{
    if step_release(s, n, t) && s.fair { lemma_grant_front(Sem { available: s.available + n, held: (s.held - n) as nat, ..s }); }
    if step_add(s, n, t) && s.fair { lemma_grant_front(Sem { available: s.available + n, added: s.added + n, ..s }); }
}

/// no overtaking on a fair semaphore: while someone is queued, a new request is refused even if it would fit
pub proof fn lemma_no_overtaking(s: Sem, n: nat, ok: bool, t: Sem)
    requires s.fair, s.queue.len() > 0, step_try_acquire(s, n, ok, t)
    ensures !ok, t == s
{}

/// a waiter at the head is granted as soon as enough permits exist
pub proof fn lemma_head_granted(s: Sem, n: nat, t: Sem)
    requires s.fair, conserved(s), s.queue.len() > 0, step_release(s, n, t), s.queue[0] <= s.available + n
    ensures t.queue.len() < s.queue.len()
{
    let r = Sem { available: s.available + n, held: (s.held - n) as nat, ..s };
    lemma_grant_front(Sem { available: (r.available - r.queue[0]) as nat, held: r.held + r.queue[0], queue: r.queue.drop_first(), ..r });
}



#[cfg(verif_canary)]
pub proof fn canary_false(s: Sem) ensures conserved(s) {}
} // verus!
fn main() {}

