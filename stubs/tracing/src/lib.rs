//! No-op stand-in for `tracing` (Kani builds only). Events evaluate none of their arguments;
//! spans are zero-sized and always disabled (`Span::id()` is `None`).
#![allow(dead_code, unused_macros, clippy::all)]

#[derive(Clone, Copy, Debug, PartialEq, Eq, PartialOrd, Ord, Hash)]
pub struct Level(u8);
impl Level {
    pub const ERROR: Level = Level(1);
    pub const WARN: Level = Level(2);
    pub const INFO: Level = Level(3);
    pub const DEBUG: Level = Level(4);
    pub const TRACE: Level = Level(5);
}

pub mod span {
    #[derive(Clone, Debug, PartialEq, Eq, Hash)]
    pub struct Id(u64);
    impl Id {
        pub fn from_u64(u: u64) -> Self {
            Id(u)
        }
        pub fn into_u64(&self) -> u64 {
            self.0
        }
    }
    pub use super::Span;
    #[derive(Debug)]
    pub struct Entered<'a>(core::marker::PhantomData<&'a ()>);
    #[derive(Debug)]
    pub struct EnteredSpan;
    impl<'a> Entered<'a> {
        pub(crate) fn new() -> Self {
            Entered(core::marker::PhantomData)
        }
    }
}

pub mod field {
    #[derive(Clone, Copy, Debug)]
    pub struct Empty;
    pub fn debug<T: core::fmt::Debug>(t: T) -> T {
        t
    }
    pub fn display<T: core::fmt::Display>(t: T) -> T {
        t
    }
}

#[derive(Clone, Debug, Default, PartialEq, Eq, Hash)]
pub struct Span;

impl Span {
    pub const fn none() -> Span {
        Span
    }
    pub fn current() -> Span {
        Span
    }
    pub fn id(&self) -> Option<span::Id> {
        None
    }
    pub fn is_none(&self) -> bool {
        true
    }
    pub fn is_disabled(&self) -> bool {
        true
    }
    pub fn in_scope<F: FnOnce() -> T, T>(&self, f: F) -> T {
        f()
    }
    pub fn enter(&self) -> span::Entered<'_> {
        span::Entered::new()
    }
    pub fn entered(self) -> span::EnteredSpan {
        span::EnteredSpan
    }
    pub fn record<V>(&self, _field: &str, _value: V) -> &Self {
        self
    }
    pub fn follows_from<T>(&self, _from: T) -> &Self {
        self
    }
}

pub mod dispatcher {
    #[derive(Clone, Debug, Default)]
    pub struct Dispatch;
    impl Dispatch {
        pub fn enter(&self, _id: &super::span::Id) {}
        pub fn exit(&self, _id: &super::span::Id) {}
        pub fn try_close(&self, _id: super::span::Id) -> bool {
            false
        }
        pub fn clone_span(&self, id: &super::span::Id) -> super::span::Id {
            id.clone()
        }
    }
    pub fn get_default<T, F: FnMut(&Dispatch) -> T>(mut f: F) -> T {
        f(&Dispatch)
    }
}
pub use dispatcher::Dispatch;

pub mod subscriber {
    pub trait Subscriber {}
}
pub use subscriber::Subscriber;

pub mod instrument {
    pub trait Instrument: Sized {
        fn instrument(self, _span: super::Span) -> Self {
            self
        }
        fn in_current_span(self) -> Self {
            self
        }
    }
    impl<T: Sized> Instrument for T {}
}
pub use instrument::Instrument;

#[macro_export]
macro_rules! event { ($($t:tt)*) => { () }; }
#[macro_export]
macro_rules! trace { ($($t:tt)*) => { () }; }
#[macro_export]
macro_rules! debug { ($($t:tt)*) => { () }; }
#[macro_export]
macro_rules! info { ($($t:tt)*) => { () }; }
#[macro_export]
macro_rules! warn { ($($t:tt)*) => { () }; }
#[macro_export]
macro_rules! error { ($($t:tt)*) => { () }; }
#[macro_export]
macro_rules! span { ($($t:tt)*) => { $crate::Span::none() }; }
#[macro_export]
macro_rules! trace_span { ($($t:tt)*) => { $crate::Span::none() }; }
#[macro_export]
macro_rules! debug_span { ($($t:tt)*) => { $crate::Span::none() }; }
#[macro_export]
macro_rules! info_span { ($($t:tt)*) => { $crate::Span::none() }; }
#[macro_export]
macro_rules! warn_span { ($($t:tt)*) => { $crate::Span::none() }; }
#[macro_export]
macro_rules! error_span { ($($t:tt)*) => { $crate::Span::none() }; }
#[macro_export]
macro_rules! enabled { ($($t:tt)*) => { false }; }
