import sys
from . import kani
from .scratch import Scratch

def main():
    with Scratch() as sc:
        for crate, feats in (("shuttle-engine", []), ("shuttle-engine", ["vector-clocks"]), ("shuttle-schedulers", []),
                             ("shuttle-std", []), ("deterministic_collections", []), ("shuttle-parking_lot-impl", [])):
            ok, log, wall = kani.warm(sc, crate, feats)
            print("warm %s %s: %s %.0fs" % (crate, feats, "ok" if ok else "FAILED", wall))
            if not ok:
                print(log[-2000:])

if __name__ == "__main__":
    main()
