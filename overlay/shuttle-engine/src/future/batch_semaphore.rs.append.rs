#[cfg(kani)]
impl BatchSemaphore {
    /// (cfg(kani)) observations for contracts of the wrappers built on the semaphore
    pub fn verif_waiters(&self) -> usize {
        self.state.borrow().waiters.len()
    }
    /// put the semaphore in the state "n permits taken by completed acquisitions" (roomy queues, see verif_sem)
    pub fn verif_take(&self, n: usize) {
        self.init_object_id();
        let mut st = self.state.borrow_mut();
        let avail = st.permits_available.num_available - n;
        st.permits_available.num_available = avail;
        let mut q = VecDeque::with_capacity(4);
        if avail > 0 {
            q.push_back((avail, VectorClock::new()));
        }
        st.permits_available.permit_clocks = Some(q);
        if st.waiters.capacity() == 0 {
            let old = std::mem::replace(&mut st.waiters, VecDeque::with_capacity(4));
            std::mem::forget(old);
        }
    }
    pub fn verif_take_all(&self) {
        let n = self.available_permits();
        self.verif_take(n);
    }
    /// enqueue a waiter for `n` permits on behalf of blocked task `tid`
    pub fn verif_enqueue(&self, tid: usize, n: usize) {
        let w = Arc::new(Waiter {
            task_id: AtomicUsize::new(tid),
            num_permits: n,
            is_queued: AtomicBool::new(true),
            has_permits: AtomicBool::new(false),
            clock: VectorClock::new(),
            waker: Mutex::new(None),
        });
        self.state.borrow_mut().waiters.push_back(w);
    }
}

#[cfg(kani)]
mod verif_sem {
    //! C18: BatchSemaphore contracts. Waiters <= 2, permits small; every harness runs the real methods on the real
    //! state with `thread::switch` replaced by `verif_switch` (counts choice points).
    use super::*;
    use crate::runtime::execution::verif_exec::{new_store, run_in, state_with, task_state, use_store, SpecSched};
    use crate::runtime::task::TaskState;
    use crate::verif_support::{fixed_random_state, stub_false, switches, verif_switch, ENV};
    use std::rc::Rc;

    const BLOCKED: TaskState = TaskState::Blocked { allow_spurious_wakeups: false };

    fn mk_waiter(tid: usize, n: usize, queued: bool, has: bool) -> Arc<Waiter> {
        Arc::new(Waiter {
            task_id: AtomicUsize::new(tid),
            num_permits: n,
            is_queued: AtomicBool::new(queued),
            has_permits: AtomicBool::new(has),
            clock: VectorClock::new(),
            waker: Mutex::new(None),
        })
    }

    // evaluated at compile time: `Location::caller()` is not supported by Kani at verification time
    const SIG: ResourceSignature = ResourceSignature::new_const(ResourceType::BatchSemaphore);

    fn mk_sem(avail: usize, fairness: Fairness, closed: bool) -> BatchSemaphore {
        let s = BatchSemaphore::const_new_with_signature(avail, fairness, SIG);
        {
            let mut st = s.state.borrow_mut();
            st.closed = closed;
            let old = std::mem::replace(&mut st.waiters, VecDeque::with_capacity(4));
            std::mem::forget(old);
            roomy_permits(&mut st.permits_available, avail);
        }
        s.init_object_id(); // what `BatchSemaphore::acquire` does before creating an `Acquire`
        s
    }

    /// the lazily created batch queue, with room for a few batches (Vec/VecDeque growth makes CBMC walk through the
    /// allocation-failure reporting code)
    fn roomy_permits(p: &mut PermitsAvailable, avail: usize) {
        let mut q = VecDeque::with_capacity(4);
        if avail > 0 {
            q.push_back((avail, VectorClock::new()));
        }
        p.permit_clocks = Some(q);
    }

    fn any_fairness() -> Fairness {
        if kani::any() { Fairness::StrictlyFair } else { Fairness::Unfair }
    }

    fn sum_batches(p: &PermitsAvailable) -> usize {
        let mut sum = 0;
        if let Some(q) = &p.permit_clocks {
            let mut i = 0;
            while i < q.len() {
                sum += q[i].0;
                i += 1;
            }
        }
        sum
    }

    /// C18.permits.acquire_release [Kb: <= 2 batches]: inv_PA (sum of batches == available); acquire(n) is Ok <=>
    /// n == 0 or n <= available, removes exactly n, Err leaves the state unchanged; release(n) adds exactly n.
    #[kani::proof]
    #[kani::unwind(5)]
    fn c18_permits_acquire_release() {
        let a: usize = kani::any();
        let b: usize = kani::any();
        kani::assume(a <= 4 && b <= 4);
        let mut p = PermitsAvailable::const_new(a);
        roomy_permits(&mut p, a);
        if b > 0 {
            p.release(b, VectorClock::new());
        }
        assert!(p.available() == a + b && sum_batches(&p) == a + b);
        let n: usize = kani::any();
        kani::assume(n <= 9);
        let r = p.acquire(n, VectorClock::new());
        if n == 0 || n <= a + b {
            assert!(r.is_ok());
            assert!(p.available() == a + b - n);
        } else {
            assert!(r == Err(TryAcquireError::NoPermits));
            assert!(p.available() == a + b);
        }
        assert!(sum_batches(&p) == p.available());
        kani::cover!(n > a && n <= a + b); // spans two batches
        kani::cover!(n > a + b);
        std::mem::forget(r);
    }

    /// C18.sem.try_acquire [Kb: 0 or 1 queued waiter]: Closed if closed; fair and someone queued => NoPermits (no
    /// overtaking) ; otherwise Ok <=> n <= available. Ok removes exactly n; any Err leaves permits and queue unchanged.
    /// Exactly one choice point precedes the effect (C02).
    #[kani::proof]
    #[kani::solver(minisat)]
    #[kani::unwind(5)]
    #[kani::stub(crate::runtime::thread::continuation::switch, verif_switch)]
    #[kani::stub(std::hash::RandomState::new, fixed_random_state)]
    #[kani::stub(crate::backtrace_enabled, stub_false)]
    fn c18_sem_try_acquire_fair() {
        try_acquire_contract(Fairness::StrictlyFair);
    }

    #[kani::proof]
    #[kani::solver(minisat)]
    #[kani::unwind(5)]
    #[kani::stub(crate::runtime::thread::continuation::switch, verif_switch)]
    #[kani::stub(std::hash::RandomState::new, fixed_random_state)]
    #[kani::stub(crate::backtrace_enabled, stub_false)]
    fn c18_sem_try_acquire_unfair() {
        try_acquire_contract(Fairness::Unfair);
    }

    fn try_acquire_contract(fairness: Fairness) {
        let mut store = new_store();
        use_store(&mut store);
        let sched = Rc::new(RefCell::new(SpecSched::new()));
        let st = state_with([TaskState::Runnable, BLOCKED, BLOCKED], 0, sched);
        let a: usize = kani::any();
        let n: usize = kani::any();
        kani::assume(a <= 2 && n >= 1 && n <= 3);
        let closed: bool = kani::any();
        let sem = mk_sem(a, fairness, closed);
        let has_waiter: bool = kani::any();
        kani::assume(!(closed && has_waiter)); // inv (4)
        let w1n: usize = kani::any();
        kani::assume(w1n == a + 1); // inv (1)
        if has_waiter {
            sem.state.borrow_mut().waiters.push_back(mk_waiter(1, w1n, true, false));
        }
        let (r, cell) = run_in(st, || sem.try_acquire(n));
        assert!(switches() == 1);
        let expect_ok = !closed && (!has_waiter || fairness == Fairness::Unfair) && n <= a;
        assert!(r.is_ok() == expect_ok);
        if closed {
            assert!(r == Err(TryAcquireError::Closed));
        }
        assert!(sem.available_permits() == if expect_ok { a - n } else { a });
        assert!(sem.verif_waiters() == if has_waiter { 1 } else { 0 });
        assert!(sem.is_closed() == closed);
        // the queued waiter keeps waiting (it could not be satisfied before, and permits only went down)
        assert!(task_state(&cell, 1) == BLOCKED && task_state(&cell, 0) == TaskState::Runnable);
        kani::cover!(expect_ok);
        kani::cover!(has_waiter && n <= a);
        std::mem::forget(r);
        std::mem::forget(sem);
    }

    /// C18.sem.release_fair [Kb: 2 queued waiters]: permits go to the queue strictly from the head; the first waiter that
    /// does not fit stops the hand-out (a later, smaller request does not overtake); a granted waiter is dequeued, marked,
    /// its current task made runnable; conservation: available' + granted == available + released.
    #[kani::proof]
    #[kani::solver(minisat)]
    #[kani::unwind(5)]
    #[kani::stub(crate::runtime::thread::continuation::switch, verif_switch)]
    #[kani::stub(std::hash::RandomState::new, fixed_random_state)]
    #[kani::stub(crate::backtrace_enabled, stub_false)]
    fn c18_sem_release_fair() {
        let mut store = new_store();
        use_store(&mut store);
        let sched = Rc::new(RefCell::new(SpecSched::new()));
        let st = state_with([TaskState::Runnable, BLOCKED, BLOCKED], 0, sched);
        let a: usize = kani::any();
        let rel: usize = kani::any();
        let n1: usize = kani::any();
        let n2: usize = kani::any();
        kani::assume(a <= 2 && rel >= 1 && rel <= 3 && n1 > a && n1 <= 4 && n2 >= 1 && n2 <= 4);
        let sem = mk_sem(a, Fairness::StrictlyFair, false);
        let w1 = mk_waiter(1, n1, true, false);
        let w2 = mk_waiter(2, n2, true, false);
        sem.state.borrow_mut().waiters.push_back(w1.clone());
        sem.state.borrow_mut().waiters.push_back(w2.clone());
        let ((), cell) = run_in(st, || sem.release(rel));
        assert!(switches() == 1);
        let tot = a + rel;
        let g1 = n1 <= tot;
        let g2 = g1 && n2 <= tot - n1;
        assert!(w1.has_permits.load(Ordering::SeqCst) == g1 && w1.is_queued.load(Ordering::SeqCst) == !g1);
        assert!(w2.has_permits.load(Ordering::SeqCst) == g2 && w2.is_queued.load(Ordering::SeqCst) == !g2);
        assert!(task_state(&cell, 1) == if g1 { TaskState::Runnable } else { BLOCKED });
        assert!(task_state(&cell, 2) == if g2 { TaskState::Runnable } else { BLOCKED });
        let granted = (if g1 { n1 } else { 0 }) + (if g2 { n2 } else { 0 });
        assert!(sem.available_permits() == tot - granted);
        assert!(sem.verif_waiters() == 2 - (g1 as usize) - (g2 as usize));
        kani::cover!(g1 && g2);
        kani::cover!(!g1 && n2 <= tot); // no overtaking
        std::mem::forget(sem);
    }

    /// C18.sem.release_unfair [Kb: 2 queued waiters]: every waiter that fits is made runnable (they race); none is
    /// dequeued or granted; permits all stay available.
    #[kani::proof]
    #[kani::solver(minisat)]
    #[kani::unwind(5)]
    #[kani::stub(crate::runtime::thread::continuation::switch, verif_switch)]
    #[kani::stub(std::hash::RandomState::new, fixed_random_state)]
    #[kani::stub(crate::backtrace_enabled, stub_false)]
    fn c18_sem_release_unfair() {
        let mut store = new_store();
        use_store(&mut store);
        let sched = Rc::new(RefCell::new(SpecSched::new()));
        let st = state_with([TaskState::Runnable, BLOCKED, BLOCKED], 0, sched);
        let a: usize = kani::any();
        let rel: usize = kani::any();
        let n1: usize = kani::any();
        let n2: usize = kani::any();
        kani::assume(a <= 2 && rel >= 1 && rel <= 3 && n1 > a && n1 <= 4 && n2 > a && n2 <= 4);
        let sem = mk_sem(a, Fairness::Unfair, false);
        let w1 = mk_waiter(1, n1, true, false);
        let w2 = mk_waiter(2, n2, true, false);
        sem.state.borrow_mut().waiters.push_back(w1.clone());
        sem.state.borrow_mut().waiters.push_back(w2.clone());
        let ((), cell) = run_in(st, || sem.release(rel));
        assert!(switches() == 1);
        let tot = a + rel;
        assert!(task_state(&cell, 1) == if n1 <= tot { TaskState::Runnable } else { BLOCKED });
        assert!(task_state(&cell, 2) == if n2 <= tot { TaskState::Runnable } else { BLOCKED });
        assert!(sem.available_permits() == tot && sem.verif_waiters() == 2);
        assert!(!w1.has_permits.load(Ordering::SeqCst) && w1.is_queued.load(Ordering::SeqCst));
        kani::cover!(n1 <= tot && n2 > tot);
        std::mem::forget(sem);
    }

    /// C18.sem.close [Kb: 2 queued waiters]: close dequeues and wakes every waiter, grants nothing, and every later
    /// try_acquire fails with Closed; closing twice is a no-op.
    #[kani::proof]
    #[kani::solver(minisat)]
    #[kani::unwind(5)]
    #[kani::stub(crate::runtime::thread::continuation::switch, verif_switch)]
    #[kani::stub(std::hash::RandomState::new, fixed_random_state)]
    #[kani::stub(crate::backtrace_enabled, stub_false)]
    fn c18_sem_close() {
        let mut store = new_store();
        use_store(&mut store);
        let sched = Rc::new(RefCell::new(SpecSched::new()));
        let st = state_with([TaskState::Runnable, BLOCKED, BLOCKED], 0, sched);
        let a: usize = kani::any();
        kani::assume(a <= 2);
        let sem = mk_sem(a, any_fairness(), false);
        let w1 = mk_waiter(1, a + 1, true, false);
        let w2 = mk_waiter(2, a + 2, true, false);
        sem.state.borrow_mut().waiters.push_back(w1.clone());
        sem.state.borrow_mut().waiters.push_back(w2.clone());
        let (r, cell) = run_in(st, || {
            sem.close();
            sem.close_no_scheduling_point();
            sem.try_acquire(1)
        });
        assert!(r == Err(TryAcquireError::Closed));
        assert!(sem.is_closed() && sem.verif_waiters() == 0 && sem.available_permits() == a);
        assert!(!w1.is_queued.load(Ordering::SeqCst) && !w1.has_permits.load(Ordering::SeqCst));
        assert!(!w2.is_queued.load(Ordering::SeqCst) && !w2.has_permits.load(Ordering::SeqCst));
        assert!(task_state(&cell, 1) == TaskState::Runnable && task_state(&cell, 2) == TaskState::Runnable);
        kani::cover!(a == 2);
        std::mem::forget(r);
        std::mem::forget(sem);
    }

    /// C18.sem.remove_waiter [Kb: 2 queued waiters]: dropping a queued acquisition removes exactly that waiter; on a fair
    /// semaphore removing the head hands the permits to the next waiter if they now fit (nobody is stranded).
    #[kani::proof]
    #[kani::solver(minisat)]
    #[kani::unwind(5)]
    #[kani::stub(crate::runtime::thread::continuation::switch, verif_switch)]
    #[kani::stub(std::hash::RandomState::new, fixed_random_state)]
    #[kani::stub(crate::backtrace_enabled, stub_false)]
    fn c18_sem_remove_waiter_fair_head() {
        remove_waiter_contract(Fairness::StrictlyFair, true);
    }

    #[kani::proof]
    #[kani::solver(minisat)]
    #[kani::unwind(5)]
    #[kani::stub(crate::runtime::thread::continuation::switch, verif_switch)]
    #[kani::stub(std::hash::RandomState::new, fixed_random_state)]
    #[kani::stub(crate::backtrace_enabled, stub_false)]
    fn c18_sem_remove_waiter_fair_second() {
        remove_waiter_contract(Fairness::StrictlyFair, false);
    }

    #[kani::proof]
    #[kani::solver(minisat)]
    #[kani::unwind(5)]
    #[kani::stub(crate::runtime::thread::continuation::switch, verif_switch)]
    #[kani::stub(std::hash::RandomState::new, fixed_random_state)]
    #[kani::stub(crate::backtrace_enabled, stub_false)]
    fn c18_sem_remove_waiter_unfair() {
        remove_waiter_contract(Fairness::Unfair, true);
    }

    fn remove_waiter_contract(fairness: Fairness, first: bool) {
        let mut store = new_store();
        use_store(&mut store);
        let sched = Rc::new(RefCell::new(SpecSched::new()));
        let st = state_with([TaskState::Runnable, BLOCKED, BLOCKED], 1, sched);
        let a: usize = kani::any();
        let n1: usize = kani::any();
        let n2: usize = kani::any();
        kani::assume(a <= 1 && n1 == a + 1 && n2 >= 1 && n2 <= 2);
        kani::assume(fairness == Fairness::StrictlyFair || n2 > a);
        let sem = mk_sem(a, fairness, false);
        let w1 = mk_waiter(1, n1, true, false);
        let w2 = mk_waiter(2, n2, true, false);
        sem.state.borrow_mut().waiters.push_back(w1.clone());
        sem.state.borrow_mut().waiters.push_back(w2.clone());
        let ((), cell) = run_in(st, || sem.remove_waiter(if first { &w1 } else { &w2 }));
        let (gone, stay) = if first { (&w1, &w2) } else { (&w2, &w1) };
        assert!(!gone.is_queued.load(Ordering::SeqCst) && !gone.has_permits.load(Ordering::SeqCst));
        let handoff = first && fairness == Fairness::StrictlyFair && n2 <= a;
        assert!(stay.has_permits.load(Ordering::SeqCst) == handoff);
        assert!(stay.is_queued.load(Ordering::SeqCst) == !handoff);
        assert!(sem.verif_waiters() == if handoff { 0 } else { 1 });
        assert!(sem.available_permits() == if handoff { a - n2 } else { a });
        assert!(task_state(&cell, 2) == if handoff { TaskState::Runnable } else { BLOCKED });
        kani::cover!(handoff || fairness == Fairness::Unfair || !first);
        std::mem::forget(sem);
    }

    fn mk_acquire<'a>(sem: &'a BatchSemaphore, w: &Arc<Waiter>, never_polled: bool) -> Acquire<'a> {
        Acquire { waiter: w.clone(), semaphore: sem, completed: false, never_polled }
    }

    /// C18.acquire.poll_granted_or_closed [Kb]: a waiter that was granted permits completes with Ok on its next poll
    /// WHATEVER happened to the semaphore since (including close); an ungranted waiter on a closed semaphore gets Err.
    /// A first poll that will succeed is preceded by exactly one choice point.
    #[kani::proof]
    #[kani::solver(minisat)]
    #[kani::unwind(5)]
    #[kani::stub(crate::runtime::thread::continuation::switch, verif_switch)]
    #[kani::stub(std::hash::RandomState::new, fixed_random_state)]
    #[kani::stub(crate::backtrace_enabled, stub_false)]
    fn c18_acquire_poll_granted_then_closed() {
        poll_granted_or_closed_contract(true, true);
    }

    #[kani::proof]
    #[kani::solver(minisat)]
    #[kani::unwind(5)]
    #[kani::stub(crate::runtime::thread::continuation::switch, verif_switch)]
    #[kani::stub(std::hash::RandomState::new, fixed_random_state)]
    #[kani::stub(crate::backtrace_enabled, stub_false)]
    fn c18_acquire_poll_granted_open() {
        poll_granted_or_closed_contract(true, false);
    }

    #[kani::proof]
    #[kani::solver(minisat)]
    #[kani::unwind(5)]
    #[kani::stub(crate::runtime::thread::continuation::switch, verif_switch)]
    #[kani::stub(std::hash::RandomState::new, fixed_random_state)]
    #[kani::stub(crate::backtrace_enabled, stub_false)]
    fn c18_acquire_poll_ungranted_closed() {
        poll_granted_or_closed_contract(false, true);
    }

    fn poll_granted_or_closed_contract(granted: bool, closed: bool) {
        let mut store = new_store();
        use_store(&mut store);
        let sched = Rc::new(RefCell::new(SpecSched::new()));
        let st = state_with([TaskState::Runnable, BLOCKED, BLOCKED], 0, sched);
        let a: usize = kani::any();
        kani::assume(a <= 2);
        let sem = mk_sem(a, Fairness::StrictlyFair, closed);
        let w = mk_waiter(0, 2, false, granted);
        let never_polled: bool = kani::any();
        let mut acq = mk_acquire(&sem, &w, never_polled);
        let waker = crate::runtime::task::waker::make_waker(TaskId::from(0));
        let mut cx = Context::from_waker(&waker);
        let (r, _cell) = run_in(st, || Pin::new(&mut acq).poll(&mut cx));
        match r {
            Poll::Ready(Ok(())) => assert!(granted),
            Poll::Ready(Err(_)) => assert!(!granted && closed),
            Poll::Pending => assert!(false),
        }
        assert!(acq.completed);
        assert!(sem.available_permits() == a && sem.verif_waiters() == 0);
        assert!(switches() == if never_polled { 1 } else { 0 });
        kani::cover!(never_polled);
        std::mem::forget(acq);
        std::mem::forget(sem);
    }

    /// C18.acquire.poll_first_* [Kb: four concrete configurations; a symbolic configuration exhausts memory]: first poll of a
    /// fresh acquisition, queue empty: enough permits => Ready(Ok), exactly n removed, one choice point before; not enough
    /// => Pending, enqueued at the tail with the poller's identity and waker; the choice point is skipped only for an
    /// unfair semaphore (blocking commutes).
    #[kani::proof]
    #[kani::solver(minisat)]
    #[kani::unwind(5)]
    #[kani::stub(crate::runtime::thread::continuation::switch, verif_switch)]
    #[kani::stub(std::hash::RandomState::new, fixed_random_state)]
    #[kani::stub(crate::backtrace_enabled, stub_false)]
    fn c18_acquire_poll_first_fair_blocks() {
        poll_first_contract(Fairness::StrictlyFair, 0, 1);
    }

    #[kani::proof]
    #[kani::solver(minisat)]
    #[kani::unwind(5)]
    #[kani::stub(crate::runtime::thread::continuation::switch, verif_switch)]
    #[kani::stub(std::hash::RandomState::new, fixed_random_state)]
    #[kani::stub(crate::backtrace_enabled, stub_false)]
    fn c18_acquire_poll_first_unfair_blocks() {
        poll_first_contract(Fairness::Unfair, 1, 2);
    }

    #[kani::proof]
    #[kani::solver(minisat)]
    #[kani::unwind(5)]
    #[kani::stub(crate::runtime::thread::continuation::switch, verif_switch)]
    #[kani::stub(std::hash::RandomState::new, fixed_random_state)]
    #[kani::stub(crate::backtrace_enabled, stub_false)]
    fn c18_acquire_poll_first_fair_succeeds() {
        poll_first_contract(Fairness::StrictlyFair, 1, 1);
    }

    #[kani::proof]
    #[kani::solver(minisat)]
    #[kani::unwind(5)]
    #[kani::stub(crate::runtime::thread::continuation::switch, verif_switch)]
    #[kani::stub(std::hash::RandomState::new, fixed_random_state)]
    #[kani::stub(crate::backtrace_enabled, stub_false)]
    fn c18_acquire_poll_first_unfair_succeeds() {
        poll_first_contract(Fairness::Unfair, 2, 1);
    }

    /// C02.acquire.first_poll_fair_blocking_is_choice_point [Kb, one concrete configuration: 0 permits, request 1, empty
    /// queue]: joining the ORDERED queue of a strictly fair semaphore does not commute with another task joining it (the
    /// queue order decides who is granted first), so the first poll takes exactly one choice point BEFORE it enqueues,
    /// also when the queue is still empty.
    #[kani::proof]
    #[kani::solver(minisat)]
    #[kani::unwind(5)]
    #[kani::stub(crate::runtime::thread::continuation::switch, verif_switch)]
    #[kani::stub(std::hash::RandomState::new, fixed_random_state)]
    #[kani::stub(crate::backtrace_enabled, stub_false)]
    fn c02_acquire_first_poll_fair_blocking() {
        let mut store = new_store();
        use_store(&mut store);
        let sched = Rc::new(RefCell::new(SpecSched::new()));
        let st = state_with([TaskState::Runnable, BLOCKED, BLOCKED], 0, sched);
        let sem = mk_sem(0, Fairness::StrictlyFair, false);
        let w = mk_waiter(0, 1, false, false);
        let mut acq = mk_acquire(&sem, &w, true);
        let waker = crate::runtime::task::waker::make_waker(TaskId::from(0));
        let mut cx = Context::from_waker(&waker);
        unsafe {
            SEM_OBS = &sem;
            ENV = Some(env_queue_still_empty);
        }
        let (r, _cell) = run_in(st, || Pin::new(&mut acq).poll(&mut cx));
        assert!(matches!(r, Poll::Pending));
        assert!(switches() == 1);
        assert!(unsafe { QUEUE_EMPTY_AT_SWITCH });
        assert!(sem.verif_waiters() == 1 && w.is_queued.load(Ordering::SeqCst));
        kani::cover!(true);
        std::mem::forget(acq);
        std::mem::forget(sem);
    }
    static mut SEM_OBS: *const BatchSemaphore = std::ptr::null();
    static mut QUEUE_EMPTY_AT_SWITCH: bool = false;
    fn env_queue_still_empty() {
        unsafe {
            QUEUE_EMPTY_AT_SWITCH = (*SEM_OBS).verif_waiters() == 0;
        }
    }

    fn poll_first_contract(fairness: Fairness, a: usize, n: usize) {
        let mut store = new_store();
        use_store(&mut store);
        let sched = Rc::new(RefCell::new(SpecSched::new()));
        let st = state_with([TaskState::Runnable, BLOCKED, BLOCKED], 0, sched);
        let sem = mk_sem(a, fairness, false);
        // created by ANOTHER task (2): the waiter must follow whoever polls it
        let w = mk_waiter(2, n, false, false);
        let mut acq = mk_acquire(&sem, &w, true);
        let waker = crate::runtime::task::waker::make_waker(TaskId::from(0));
        let mut cx = Context::from_waker(&waker);
        let (r, _cell) = run_in(st, || Pin::new(&mut acq).poll(&mut cx));
        if n <= a {
            assert!(matches!(r, Poll::Ready(Ok(()))) && acq.completed);
            assert!(sem.available_permits() == a - n && sem.verif_waiters() == 0);
            assert!(w.has_permits.load(Ordering::SeqCst) && !w.is_queued.load(Ordering::SeqCst));
            assert!(switches() == 1);
        } else {
            assert!(matches!(r, Poll::Pending) && !acq.completed);
            assert!(sem.available_permits() == a && sem.verif_waiters() == 1);
            assert!(w.is_queued.load(Ordering::SeqCst) && !w.has_permits.load(Ordering::SeqCst));
            assert!(w.task_id() == TaskId::from(0)); // identity refreshed to the poller
            assert!(w.waker.lock().unwrap().is_some());
            assert!(switches() == if fairness == Fairness::StrictlyFair { 1 } else { 0 });
        }
        kani::cover!(true);
        std::mem::forget(acq);
        std::mem::forget(sem);
    }

    /// C18.acquire.drop [Kb]: dropping an acquisition: queued => removed from the queue; granted but not completed =>
    /// its permits are returned; completed or never queued => nothing.
    #[kani::proof]
    #[kani::solver(minisat)]
    #[kani::unwind(5)]
    #[kani::stub(crate::runtime::thread::continuation::switch, verif_switch)]
    #[kani::stub(std::hash::RandomState::new, fixed_random_state)]
    #[kani::stub(crate::backtrace_enabled, stub_false)]
    fn c18_acquire_drop_granted() {
        acquire_drop_contract(1);
    }

    #[kani::proof]
    #[kani::solver(minisat)]
    #[kani::unwind(5)]
    #[kani::stub(crate::runtime::thread::continuation::switch, verif_switch)]
    #[kani::stub(std::hash::RandomState::new, fixed_random_state)]
    #[kani::stub(crate::backtrace_enabled, stub_false)]
    fn c18_acquire_drop_queued() {
        acquire_drop_contract(0);
    }

    #[kani::proof]
    #[kani::solver(minisat)]
    #[kani::unwind(5)]
    #[kani::stub(crate::runtime::thread::continuation::switch, verif_switch)]
    #[kani::stub(std::hash::RandomState::new, fixed_random_state)]
    #[kani::stub(crate::backtrace_enabled, stub_false)]
    fn c18_acquire_drop_completed() {
        acquire_drop_contract(2);
    }

    #[kani::proof]
    #[kani::solver(minisat)]
    #[kani::unwind(5)]
    #[kani::stub(crate::runtime::thread::continuation::switch, verif_switch)]
    #[kani::stub(std::hash::RandomState::new, fixed_random_state)]
    #[kani::stub(crate::backtrace_enabled, stub_false)]
    fn c18_acquire_drop_inert() {
        acquire_drop_contract(3);
    }

    fn acquire_drop_contract(case: u8) {
        let mut store = new_store();
        use_store(&mut store);
        let sched = Rc::new(RefCell::new(SpecSched::new()));
        let st = state_with([TaskState::Runnable, BLOCKED, BLOCKED], 0, sched);
        let a: usize = kani::any();
        kani::assume(a <= 1);
        let sem = mk_sem(a, Fairness::StrictlyFair, false);
        let n = a + 1;
        let (queued, has, completed) = match case {
            0 => (true, false, false),
            1 => (false, true, false),
            2 => (false, true, true),
            _ => (false, false, false),
        };
        let w = mk_waiter(0, n, queued, has);
        if queued {
            sem.state.borrow_mut().waiters.push_back(w.clone());
        }
        let mut acq = mk_acquire(&sem, &w, false);
        acq.completed = completed;
        let ((), _cell) = run_in(st, || drop(acq));
        assert!(sem.verif_waiters() == 0);
        assert!(!w.is_queued.load(Ordering::SeqCst));
        assert!(sem.available_permits() == if case == 1 { a + n } else { a });
        kani::cover!(true);
        std::mem::forget(sem);
    }
}
