#[cfg(kani)]
mod verif_annotation {
    use super::*;
    use shuttle_engine::runtime::execution::verif_exec::{check_transparent, SpecSched};

    /// C08.wrap.annotation_transparent [K] (feature `annotation` off: record_* are no-ops)
    #[kani::proof]
    #[kani::unwind(5)]
    fn c08_wrap_annotation_transparent() {
        let mut w = AnnotationScheduler::new(SpecSched::new());
        check_transparent(&mut w, |w| &*w.0);
        std::mem::forget(w);
    }
}
