//! F2: a failed (re-entrant) try_read must leave the lock unchanged.
use shuttle::sync::RwLock;
#[test]
fn reentrant_try_read_does_not_leak_a_permit() {
    shuttle::check_dfs(
        || {
            let lock = RwLock::new(0u8);
            let r = lock.read().unwrap();
            assert!(lock.try_read().is_err()); // diagnosed re-entrant attempt
            drop(r);
            // nobody holds the lock now: a writer must get it
            let w = lock.try_write();
            assert!(w.is_ok(), "lock is free, but try_write fails: the failed try_read kept a read permit");
        },
        None,
    );
}
