#[cfg(kani)]
pub(crate) fn verif_persisted_at() -> usize {
    SCHEDULE_PERSISTED_AT.get()
}
#[cfg(kani)]
pub(crate) fn verif_set_persisted_at(v: usize) {
    SCHEDULE_PERSISTED_AT.set(v)
}

#[cfg(kani)]
mod verif_failure {
    use super::*;
    use crate::runtime::task::TaskId;
    use crate::scheduler::Schedule;

    static mut SER_CALLS: usize = 0;
    /// stand-in for serialize_schedule (bitvec/hex are out of CBMC's reach): counts emissions
    fn stub_serialize(_s: &Schedule) -> String {
        unsafe { SER_CALLS += 1 };
        String::new()
    }

    /// C12.failure.persist_independent_of_history  [K: every earlier history = every value of SCHEDULE_PERSISTED_AT that
    /// an EARLIER run can have left behind; schedule length 0..=2]
    /// persistence None => nothing emitted; Print => the current schedule is emitted (exactly once per failure:
    /// a second call for the same failure does not emit again).
    #[kani::proof]
    #[kani::stub(std::hash::RandomState::new, crate::verif_support::fixed_random_state)]
    #[kani::unwind(4)]
    #[kani::stub(crate::scheduler::serialization::serialize_schedule, stub_serialize)]
    #[kani::stub(std::io::_eprint, crate::verif_support::noop_print)]
    #[kani::stub(std::alloc::handle_alloc_error, crate::verif_support::stub_alloc_error)]
    fn c12_failure_persist_independent_of_history() {
        // an earlier run on this thread persisted (or not) a schedule of arbitrary length and has ended;
        // the current run is a NEW execution (Execution::run -> CurrentSchedule::init)
        verif_set_persisted_at(kani::any());
        let earlier: usize = verif_persisted_at();
        crate::runtime::execution::verif_begin_execution(crate::runtime::execution::verif_roomy_schedule(kani::any()));
        let len: usize = kani::any();
        kani::assume(len <= 2);
        let mut i = 0;
        while i < len {
            crate::runtime::execution::verif_push_step(kani::any(), TaskId::from(0));
            i += 1;
        }
        let mut cfg = Config::new();
        let print: bool = kani::any();
        cfg.failure_persistence = if print { FailurePersistence::Print } else { FailurePersistence::None };
        unsafe { SER_CALLS = 0 };
        persist_failure(&cfg); // e.g. from the panic hook
        let first = unsafe { SER_CALLS };
        persist_failure(&cfg); // e.g. again from Execution::run for the same failure
        let both = unsafe { SER_CALLS };
        if print {
            assert!(first == 1); // emitted whatever happened in earlier runs
            assert!(both == 1); // and not twice for one failure
        } else {
            assert!(both == 0);
        }
        kani::cover!(print && earlier == len);
        kani::cover!(!print);
    }
}
