#[cfg(kani)]
mod verif_atomic_ptr {
    //! C04: every public operation of shuttle's AtomicPtr agrees with std's AtomicPtr (result and final value) for pointers
    //! chosen among three distinct addresses, and is preceded by exactly one choice point.
    use super::*;
    use crate::sync::atomic::Atomic;
    use crate::sync::{ResourceSignature, ResourceType};
    use shuttle_engine::runtime::execution::verif_exec::{new_store, run_in, state_with, use_store, SpecSched};
    use shuttle_engine::runtime::task::TaskState;
    use shuttle_engine::verif_support::{fixed_random_state, stub_false, switches, verif_switch};
    use std::cell::RefCell;
    use std::rc::Rc;
    use std::sync::atomic::Ordering::SeqCst;

    const SIG: ResourceSignature = ResourceSignature::new_const(ResourceType::Atomic);
    const BLOCKED: TaskState = TaskState::Blocked { allow_spurious_wakeups: false };

    #[kani::proof]
    #[kani::solver(minisat)]
    #[kani::unwind(5)]
    #[kani::stub(shuttle_engine::runtime::thread::continuation::switch, verif_switch)]
    #[kani::stub(std::hash::RandomState::new, fixed_random_state)]
    #[kani::stub(shuttle_engine::backtrace_enabled, stub_false)]
    fn c04_atomic_ptr_agrees_with_std() {
        let mut store = new_store();
        use_store(&mut store);
        let st = state_with([TaskState::Runnable, BLOCKED, BLOCKED], 0, Rc::new(RefCell::new(SpecSched::new())));
        let mut cells = [0u8; 3];
        let base = cells.as_mut_ptr();
        let pick = |i: u8| -> *mut u8 { if i == 3 { std::ptr::null_mut() } else { unsafe { base.add(i as usize) } } };
        let (i0, ia, ib): (u8, u8, u8) = (kani::any(), kani::any(), kani::any());
        kani::assume(i0 <= 3 && ia <= 3 && ib <= 3);
        let (v0, a, b) = (pick(i0), pick(ia), pick(ib));
        let op: u8 = kani::any();
        kani::assume(op < 6);
        let x = AtomicPtr { inner: Atomic { inner: RefCell::new(v0), clock: RefCell::new(None), signature: SIG } };
        let y = std::sync::atomic::AtomicPtr::new(v0);
        let (rx, _cell) = run_in(st, || match op {
            0 => (true, x.load(SeqCst)),
            1 => { x.store(a, SeqCst); (true, a) }
            2 => (true, x.swap(a, SeqCst)),
            3 => match x.compare_exchange(a, b, SeqCst, SeqCst) { Ok(v) => (true, v), Err(v) => (false, v) },
            4 => match x.compare_exchange_weak(a, b, SeqCst, SeqCst) { Ok(v) => (true, v), Err(v) => (false, v) },
            _ => match x.fetch_update(SeqCst, SeqCst, |o| if o == a { None } else { Some(b) }) { Ok(v) => (true, v), Err(v) => (false, v) },
        });
        let ry = match op {
            0 => (true, y.load(SeqCst)),
            1 => { y.store(a, SeqCst); (true, a) }
            2 => (true, y.swap(a, SeqCst)),
            3 | 4 => match y.compare_exchange(a, b, SeqCst, SeqCst) { Ok(v) => (true, v), Err(v) => (false, v) },
            _ => match y.fetch_update(SeqCst, SeqCst, |o| if o == a { None } else { Some(b) }) { Ok(v) => (true, v), Err(v) => (false, v) },
        };
        assert!(rx == ry);
        assert!(unsafe { x.raw_load() } == y.load(SeqCst));
        assert!(switches() == 1);
        kani::cover!(op == 3 && rx.0);
        kani::cover!(op == 5 && !rx.0);
        std::mem::forget(x);
    }
}
