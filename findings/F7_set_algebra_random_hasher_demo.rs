//! F7: sets produced by the set-algebra operators must iterate deterministically (identically across instances).
use deterministic_collections::HashSet;
fn order(s: &HashSet<u32>) -> Vec<u32> { s.iter().copied().collect() }
#[test]
fn set_algebra_results_iterate_identically_across_instances() {
    let a: HashSet<u32> = (0..64).collect();
    let b: HashSet<u32> = (32..96).collect();
    assert_eq!(order(&(&a | &b)), order(&(&a | &b)), "union");
    assert_eq!(order(&(&a & &b)), order(&(&a & &b)), "intersection");
    assert_eq!(order(&(&a ^ &b)), order(&(&a ^ &b)), "symmetric difference");
    assert_eq!(order(&(&a - &b)), order(&(&a - &b)), "difference");
    // and like a set built directly from the same elements in the same order
    let direct: HashSet<u32> = a.union(&b).copied().collect();
    assert_eq!(order(&(&a | &b)), order(&direct));
}
