"""Mechanical scan for unchecked assumptions in the overlay files a property uses."""
import os
import re

from .scratch import OVERLAY

KW = ("kani::assume", "kani::stub", "stub_verified", "unsafe ", "unsafe{", "transmute", "mem::forget")


def scan_overlay(P):
    hits = []
    files = set(P.get("overlay_files", []))
    for rel in sorted(files):
        p = os.path.join(OVERLAY, rel)
        if not os.path.exists(p):
            continue
        counts = {}
        for l in open(p):
            s = l.strip()
            if s.startswith("//"):
                continue
            for k in KW:
                if k in l:
                    counts[k] = counts.get(k, 0) + 1
        if counts:
            hits.append("overlay %s uses: %s" % (rel, ", ".join("%s x%d" % kv for kv in sorted(counts.items()))))
    return hits
