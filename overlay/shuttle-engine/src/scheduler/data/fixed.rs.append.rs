#[cfg(kani)]
mod verif_data_fixed {
    use super::*;
    use rand::SeedableRng;
    use rand_pcg::Pcg64Mcg;

    /// C09.data.fixed_same_stream  [K: all seeds, any number of draws in between is abstracted by an arbitrary rng state]
    /// reinitialize always returns the construction seed and restarts the stream at seed_from_u64(seed).
    #[kani::proof]
    #[kani::unwind(6)]
    fn c09_data_fixed_same_stream() {
        let seed: u64 = crate::scheduler::data::random::verif_data_random::some_seed();
        let mut f = FixedDataSource::initialize(seed);
        // arbitrary history: the inner source is in any state
        let st: u128 = kani::any();
        let ns: Option<u64> = kani::any();
        f.data_source = RandomDataSource::verif_from_parts(st, ns);
        let s = f.reinitialize();
        assert!(s == seed);
        assert!(f.seed == seed);
        assert!(*f.data_source.verif_rng() == Pcg64Mcg::seed_from_u64(seed));
        kani::cover!(true);
    }
}
