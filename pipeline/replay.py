"""Counterexample extraction and replay for lane K/Kb."""
import json
import os
import re
import subprocess

from . import kani


def kani_counterexample(scratch, ob, logdir, solver_s=None):
    """Re-run a failed harness with concrete playback. Kani writes a #[test] into the scratch copy of the
    real source file; `cargo kani playback` then executes that test natively: the real code, concrete inputs."""
    # Trace generation is far slower than the verdict itself for the heavy harnesses (25 min+ where the verdict took 80 s), so
    # its budget is tied to the time the verdict took: 8x, at least 300 s, at most the harness's own cap. Without a
    # counterexample the violation is still reported (`no-failing-input-found`, obligation + solver output in the replay file).
    budget = int(min(ob.get("timeout_s", 900), max(300, 8 * (solver_s or 0))))
    r = kani.run_harness(scratch, ob["crate"], ob.get("features") or [], ob["harness"], budget,
                         os.path.join(logdir, "cex"), extra=["-Z", "concrete-playback", "--concrete-playback=print"])
    out = open(r["log"]).read()
    cex = {"values": [], "test": None, "replayed": False}
    # one test per failed check / cover; keep the first that is not for a `cover`
    blocks = re.findall(r"```\n?(.*?)```", out, re.S)
    pick = None
    for b in blocks:
        m = re.search(r"/// Check for `(\w+)`: \"(.*)\"", b)
        if m and m.group(1) != "cover":
            pick = b
            cex["failed_check"] = m.group(2)
            break
    if pick is None and blocks and ob.get("fail_is_cover"):
        pick = blocks[0]
    if pick:
        cex["test"] = pick.strip()
        cex["values"] = [v.strip() for v in re.findall(r"^\s*// (.+)$", cex["test"], re.M)]
    if not cex["test"]:
        return cex
    # in-place playback: execute the real code natively with these inputs
    if ob.get("no_playback"):
        cex["replay_note"] = "native playback not attempted: harness uses kani::stub (not applied outside the verifier)"
        return cex
    r2 = kani.run_harness(scratch, ob["crate"], ob.get("features") or [], ob["harness"], budget,
                          os.path.join(logdir, "cex_inplace"),
                          extra=["-Z", "concrete-playback", "--concrete-playback=inplace"])
    tn = re.search(r"fn (kani_concrete_playback_\w+)", cex["test"])
    if tn:
        cmd = ["cargo", "kani", "playback", "-Z", "concrete-playback", "-p", ob["crate"]]
        if ob.get("features"):
            cmd += ["--features", ",".join(ob["features"])]
        cmd += ["--", "kani_concrete_playback_" + ob["harness"].split("::")[-1]]
        try:
            p = subprocess.run(cmd, cwd=scratch.repo, env=kani._env(scratch.target), stdout=subprocess.PIPE,
                               stderr=subprocess.STDOUT, text=True, timeout=900)
            cex["replay_cmd"] = " ".join(cmd)
            # the playback test fails (panics) iff the violation reproduces on the real code
            keep = [l for l in p.stdout.split("\n") if re.search(r"panicked at|^assertion|^test result|^failures:|^    \\S+kani_concrete_playback|^test .*(ok|FAILED)$", l)]
            cex["replay_output_tail"] = "\n".join(keep[-40:])
            # the native run of the real code panics at the harness assertion / inside the function under contract
            cex["replayed"] = "panicked at" in p.stdout
        except subprocess.TimeoutExpired:
            cex["replay_note"] = "playback timeout"
    return cex


def do_replay(pid, path):
    rec = json.load(open(path))
    print(json.dumps({k: rec.get(k) for k in ("property", "obligation", "lane", "formula", "repo_rev")}, indent=1))
    cex = rec.get("cex")
    if isinstance(cex, dict) and cex.get("test"):
        print("--- concrete playback test (inputs for the real code) ---")
        print(cex["test"])
        print("--- replay on the real code: %s ---" % ("reproduced" if cex.get("replayed") else "not reproduced / not run"))
        print(cex.get("replay_output_tail", ""))
    else:
        print("no concrete input; verifier output:")
        print(json.dumps(rec.get("verifier_output") or rec.get("failed_checks"), indent=1))
    # re-run the obligation on the current tree
    from .run import main
    return main([pid, "--only", rec["obligation"], "--tier", rec.get("tier", "quick")])
