#!/bin/sh
# Offline setup: verifies the tools are usable and pre-warms the third-party dependency build cache for Kani.
# Checks never depend on this cache: every check rsyncs /repo's working tree and rebuilds the workspace crates.
set -e
cd "$(dirname "$0")"
export CARGO_NET_OFFLINE=true
verus --version >/dev/null
cargo kani --version >/dev/null
mkdir -p evidence logs replay
python3 -m pipeline.warm || echo "warm-up skipped (checks will build on first use)"
