#[cfg(kani)]
mod verif_metrics {
    use super::*;
    use crate::runtime::execution::verif_exec::{check_transparent, SpecSched};

    /// C08.wrap.metrics_transparent [K: all offered lists of 1..=3 tasks, any current/yield flag, any metric history]
    #[kani::proof]
    #[kani::unwind(5)]
    fn c08_wrap_metrics_transparent() {
        let mut m = MetricsScheduler::new(SpecSched::new());
        // arbitrary history of the metrics (bounded away from overflow: A-wrap)
        m.iterations = kani::any::<u32>() as usize;
        m.iteration_divisor = 10;
        m.steps = kani::any::<u32>() as usize;
        m.context_switches = kani::any::<u32>() as usize;
        m.preemptions = kani::any::<u32>() as usize;
        m.random_choices = kani::any::<u32>() as usize;
        m.last_task = TaskId::from(kani::any::<usize>() % 3);
        check_transparent(&mut m, |w| &*w.inner);
        std::mem::forget(m);
    }
}
