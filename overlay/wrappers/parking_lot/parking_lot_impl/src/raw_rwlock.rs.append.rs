#[cfg(kani)]
mod verif_pl_rwlock {
    //! C20: parking_lot RawRwLock against the semaphore. Abstract state: (sem.available, upgradable_sem.available).
    //! inv_PL: exclusive <=> sem == 0; n shared/upgradable holders <=> sem == MAX - n; at most one upgradable holder OR
    //! one task queued in lock_upgradable holds the slot (it takes the slot BEFORE queueing on sem).
    use super::*;
    use lock_api::{RawRwLock as _, RawRwLockDowngrade as _, RawRwLockUpgrade as _, RawRwLockUpgradeDowngrade as _};
    use shuttle_engine::runtime::execution::verif_exec::{new_store, run_in, state_with, use_store, SpecSched};
    use shuttle_engine::runtime::execution::ExecutionState;
    use shuttle_engine::runtime::task::TaskState;
    use shuttle_engine::verif_support::{fixed_random_state, stub_false, verif_switch, ENV};
    use std::cell::RefCell;
    use std::rc::Rc;

    const SIG: shuttle_engine::sync_types::ResourceSignature =
        shuttle_engine::sync_types::ResourceSignature::new_const(shuttle_engine::sync_types::ResourceType::BatchSemaphore);
    const BLOCKED: TaskState = TaskState::Blocked { allow_spurious_wakeups: false };

    fn mk(sem_taken: usize, slot_taken: bool) -> RawRwLock {
        // (the signatures are evaluated at compile time: `Location::caller()` is unsupported at verification time)
        let l = RawRwLock {
            sem: BatchSemaphore::const_new_with_signature(MAX_READERS, Fairness::StrictlyFair, SIG),
            upgradable_sem: BatchSemaphore::const_new_with_signature(1, Fairness::StrictlyFair, SIG),
        };
        l.sem.verif_take(sem_taken);
        l.upgradable_sem.verif_take(if slot_taken { 1 } else { 0 });
        l
    }

    /// environment hook: the operation under contract must never reach a choice point while blocked or asleep
    fn env_must_not_block() {
        let runnable = ExecutionState::with(|s| s.current().runnable());
        assert!(runnable);
        // nothing after a violation matters: do not let the verifier spin in the blocked task's wait loop
        kani::assume(runnable);
    }

    macro_rules! seg {
        ($name:ident, $body:expr) => {
            #[kani::proof]
            #[kani::solver(minisat)]
            #[kani::unwind(6)]
            #[kani::stub(shuttle_engine::runtime::thread::continuation::switch, verif_switch)]
            #[kani::stub(std::hash::RandomState::new, fixed_random_state)]
            #[kani::stub(shuttle_engine::backtrace_enabled, stub_false)]
            fn $name() {
                let mut store = new_store();
                use_store(&mut store);
                let st = state_with([TaskState::Runnable, BLOCKED, BLOCKED], 0, Rc::new(RefCell::new(SpecSched::new())));
                unsafe { ENV = Some(env_must_not_block) };
                ($body)(st);
                kani::cover!(true);
            }
        };
    }

    // C20.pl.downgrade_to_upgradable [K over the states allowed by inv_PL]: exclusive -> upgradable completes WITHOUT
    // WAITING and never admits a writer: afterwards sem == MAX-1... wait: holder keeps 1 permit => available MAX-1? no:
    // exclusive holds MAX; after the downgrade the holder keeps one permit, so MAX-1 are available; slot taken by me.
    seg!(c20_pl_downgrade_to_upgradable_slot_free, |st| {
        let l = mk(MAX_READERS, false);
        let ((), _cell) = run_in(st, || unsafe { l.downgrade_to_upgradable() });
        assert!(l.upgradable_sem.available_permits() == 0 && l.sem.available_permits() == MAX_READERS - 1);
        std::mem::forget(l);
    });

    seg!(c20_pl_downgrade_to_upgradable_slot_held_by_queued_task, |st| {
        // I hold the lock exclusively; the upgradable slot is held by a task queued in lock_upgradable (allowed by inv_PL)
        let slot_taken: bool = true;
        let l = mk(MAX_READERS, slot_taken);
        if slot_taken {
            l.sem.verif_enqueue(1, 1); // that task waits for its shared permit
        }
        let ((), _cell) = run_in(st, || unsafe { l.downgrade_to_upgradable() });
        assert!(l.upgradable_sem.available_permits() == 0);
        std::mem::forget(l);
    });

    // C20.pl.downgrade [K]: exclusive -> shared releases all but one permit, never blocks
    seg!(c20_pl_downgrade, |st| {
        let l = mk(MAX_READERS, kani::any());
        let ((), _cell) = run_in(st, || unsafe { l.downgrade() });
        assert!(l.sem.available_permits() == MAX_READERS - 1);
        std::mem::forget(l);
    });

    // C20.pl.downgrade_upgradable [K]: upgradable -> shared gives the slot back, keeps the shared permit, never blocks
    seg!(c20_pl_downgrade_upgradable, |st| {
        let l = mk(1, true);
        let ((), _cell) = run_in(st, || unsafe { l.downgrade_upgradable() });
        assert!(l.sem.available_permits() == MAX_READERS - 1 && l.upgradable_sem.available_permits() == 1);
        std::mem::forget(l);
    });

    // C20.pl.try_lock_upgradable [K]: succeeds iff slot and a shared permit are both free; on failure BOTH semaphores
    // are unchanged (the slot is given back)
    seg!(c20_pl_try_lock_upgradable, |st| {
        let slot_taken: bool = kani::any();
        let exclusive: bool = kani::any();
        let taken = if exclusive { MAX_READERS } else { 1 };
        let l = mk(taken, slot_taken);
        let (ok, _cell) = run_in(st, || l.try_lock_upgradable());
        assert!(ok == (!slot_taken && !exclusive));
        if ok {
            assert!(l.sem.available_permits() == MAX_READERS - taken - 1 && l.upgradable_sem.available_permits() == 0);
        } else {
            assert!(l.sem.available_permits() == MAX_READERS - taken);
            assert!(l.upgradable_sem.available_permits() == if slot_taken { 0 } else { 1 });
        }
        std::mem::forget(l);
    });

    // C20.pl.try_lock_shared_exclusive [K]: try variants succeed exactly when permitted and leave nothing behind
    seg!(c20_pl_try_lock_shared_exclusive, |st| {
        let state: u8 = kani::any::<u8>() % 3; // 0 free, 1 one reader, 2 writer
        let taken = match state { 0 => 0, 1 => 1, _ => MAX_READERS };
        let l = mk(taken, false);
        let want_exclusive: bool = kani::any();
        let (ok, _cell) = run_in(st, || if want_exclusive { l.try_lock_exclusive() } else { l.try_lock_shared() });
        let expect = if want_exclusive { state == 0 } else { state != 2 };
        assert!(ok == expect);
        let used = if !ok { 0 } else if want_exclusive { MAX_READERS } else { 1 };
        assert!(l.sem.available_permits() == MAX_READERS - taken - used);
        std::mem::forget(l);
    });
}
