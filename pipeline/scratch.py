"""Scratch copy of /repo's working tree + mechanical overlay (DESIGN.md §2.1, §2.2).

Nothing of shuttle is changed or removed by the overlay: it only *adds*
  * `X.append.rs`  -> appended to source file X (a `#[cfg(kani)] mod verif_* { .. }`),
  * `X.rules`      -> `insert_above` directives: attribute lines inserted above an anchored line.
A directive whose anchor is not found raises AnchorLost (the check then exits 2, never 1).
"""
import fcntl
import os
import re
import shutil
import subprocess
import sys

REPO = os.environ.get("VERIF_REPO", "/repo")
VERIF = os.path.dirname(os.path.dirname(os.path.abspath(__file__)))
OVERLAY = os.path.join(VERIF, "overlay")
CACHE_ROOT = os.environ.get("VERIF_CACHE", "/var/tmp/verif-cache")


class AnchorLost(Exception):
    pass


def _parse_rules(text):
    """rules file:
         insert_above fn=<name> [impl=<regex>] [nth=<k>]
         <lines ...>
         end
       or
         insert_above line=<regex>
         <lines ...>
         end
    """
    rules = []
    cur = None
    for raw in text.splitlines():
        if cur is None:
            s = raw.strip()
            if not s or s.startswith("//"):
                continue
            if s.startswith("insert_above "):
                kv = {}
                for m in re.finditer(r'(\w+)=("([^"]*)"|\S+)', s[len("insert_above "):]):
                    kv[m.group(1)] = m.group(3) if m.group(3) is not None else m.group(2)
                cur = {"kv": kv, "lines": []}
            else:
                raise ValueError("bad rules line: %r" % raw)
        else:
            if raw.strip() == "end":
                rules.append(cur)
                cur = None
            else:
                cur["lines"].append(raw)
    if cur is not None:
        raise ValueError("unterminated rule")
    return rules


FN_RE = r'^\s*(?:pub(?:\([^)]*\))?\s+)?(?:default\s+)?(?:const\s+)?(?:async\s+)?(?:unsafe\s+)?(?:extern\s+"[^"]*"\s+)?fn\s+%s\b'


def _impl_ranges(lines, impl_regex):
    """line ranges [start, end) of top-level items whose header line matches impl_regex (brace matched)."""
    out = []
    rx = re.compile(impl_regex)
    i = 0
    n = len(lines)
    while i < n:
        if rx.search(lines[i]):
            depth = 0
            seen = False
            j = i
            while j < n:
                for ch in _strip_strings(lines[j]):
                    if ch == '{':
                        depth += 1
                        seen = True
                    elif ch == '}':
                        depth -= 1
                if seen and depth <= 0:
                    break
                j += 1
            out.append((i, min(j + 1, n)))
            i = j + 1
        else:
            i += 1
    return out


def _strip_strings(line):
    # crude: drop // comments, string and char literals, so braces inside them are ignored
    line = re.sub(r'"(?:\\.|[^"\\])*"', '""', line)
    line = re.sub(r"'(?:\\.|[^'\\])'", "''", line)
    line = re.sub(r'//.*$', '', line)
    return line


def apply_rules(path, text, rules_text):
    lines = text.split("\n")
    fired = []
    for rule in _parse_rules(rules_text):
        kv = rule["kv"]
        if "fn" in kv:
            rx = re.compile(FN_RE % re.escape(kv["fn"]))
            ranges = [(0, len(lines))]
            if "impl" in kv:
                ranges = _impl_ranges(lines, kv["impl"])
                if not ranges:
                    raise AnchorLost("%s: impl /%s/ not found" % (path, kv["impl"]))
            hits = [i for (a, b) in ranges for i in range(a, b) if rx.search(lines[i])]
        else:
            rx = re.compile(kv["line"])
            hits = [i for i in range(len(lines)) if rx.search(lines[i])]
        nth = int(kv.get("nth", "1"))
        if len(hits) < nth:
            raise AnchorLost("%s: anchor %r not found (hits=%d)" % (path, kv, len(hits)))
        if "nth" not in kv and len(hits) > 1 and kv.get("unique", "yes") == "yes":
            raise AnchorLost("%s: anchor %r ambiguous (%d hits)" % (path, kv, len(hits)))
        at = hits[nth - 1]
        indent = re.match(r'\s*', lines[at]).group(0)
        ins = [indent + l.strip() for l in rule["lines"] if l.strip()]
        lines[at:at] = ins
        fired.append({"rule": kv, "at_line": at + 1, "inserted": len(ins)})
    return "\n".join(lines), fired


def sync_repo(dst):
    os.makedirs(dst, exist_ok=True)
    subprocess.check_call(
        ["rsync", "-a", "--delete", "--exclude", "/target", "--exclude", ".git", REPO + "/", dst + "/"]
    )


def apply_overlay(dst, log=None):
    """Apply every overlay file to the scratch copy at dst. Returns a log of what was added."""
    applied = []
    for root, _dirs, files in os.walk(OVERLAY):
        for f in sorted(files):
            src = os.path.join(root, f)
            rel = os.path.relpath(src, OVERLAY)
            if rel.endswith(".rules"):
                target_rel = rel[: -len(".rules")]
                kind = "rules"
            elif rel.endswith(".append.rs"):
                target_rel = rel[: -len(".append.rs")]
                kind = "append"
            elif rel.endswith(".new.rs") or rel.endswith(".new"):
                # a whole new file (only harness-only files that do not exist in shuttle)
                target_rel = rel[: rel.rindex(".new")]
                kind = "new"
            else:
                continue
            target = os.path.join(dst, target_rel)
            if kind == "new":
                if os.path.exists(target):
                    raise AnchorLost("%s already exists in repo" % target_rel)
                os.makedirs(os.path.dirname(target), exist_ok=True)
                shutil.copyfile(src, target)
                applied.append({"file": target_rel, "kind": kind})
                continue
            if not os.path.exists(target):
                raise AnchorLost("overlay target %s does not exist in the working tree" % target_rel)
            with open(target) as fh:
                text = fh.read()
            with open(src) as fh:
                o = fh.read()
            if kind == "rules":
                text, fired = apply_rules(target_rel, text, o)
                applied.append({"file": target_rel, "kind": kind, "fired": fired})
            else:
                if not text.endswith("\n"):
                    text += "\n"
                text += "\n// ---- appended by /verif overlay (cfg(kani) only) ----\n" + o
                applied.append({"file": target_rel, "kind": kind, "lines": o.count("\n")})
            st = os.stat(target)
            with open(target, "w") as fh:
                fh.write(text)
            # keep cargo's mtime-based fingerprint stable when neither side changed
            mt = max(st.st_mtime, os.stat(src).st_mtime)
            os.utime(target, (mt, mt))
    # cargo config: offline + tracing stand-in
    os.makedirs(os.path.join(dst, ".cargo"), exist_ok=True)
    with open(os.path.join(dst, ".cargo", "config.toml"), "w") as fh:
        fh.write(
            "[net]\noffline = true\n\n[patch.crates-io]\ntracing = { path = \"%s\" }\n"
            % os.path.join(VERIF, "stubs", "tracing")
        )
    return applied


class Scratch:
    """Exclusive scratch area: <CACHE_ROOT>/repo (source copy, removed afterwards) and
    <CACHE_ROOT>/target (cargo build cache for third-party crates; safe to delete at any time)."""

    def __init__(self, keep=False):
        self.keep = keep or bool(os.environ.get("VERIF_KEEP_SCRATCH"))
        self.root = CACHE_ROOT
        self.repo = os.path.join(self.root, "repo")
        self.target = os.path.join(self.root, "target")
        self.lockf = None
        self.applied = None

    def __enter__(self):
        os.makedirs(self.root, exist_ok=True)
        self.lockf = open(os.path.join(self.root, "lock"), "w")
        fcntl.flock(self.lockf, fcntl.LOCK_EX)
        sync_repo(self.repo)
        self.applied = apply_overlay(self.repo)
        return self

    def __exit__(self, *exc):
        try:
            if not self.keep:
                shutil.rmtree(self.repo, ignore_errors=True)
                # Kani's per-run artifacts for the workspace crates (goto binaries, per-harness outputs): not a cache
                import glob
                for d in glob.glob(os.path.join(self.target, "kani", "*", "debug", "build", "*")):
                    base = os.path.basename(d)
                    if base.startswith("shuttle") or base.startswith("deterministic") or base.startswith("tracing-"):
                        shutil.rmtree(d, ignore_errors=True)
        finally:
            fcntl.flock(self.lockf, fcntl.LOCK_UN)
            self.lockf.close()
        return False


if __name__ == "__main__":
    with Scratch(keep=True) as s:
        import json
        json.dump(s.applied, sys.stdout, indent=1)
        print("\nscratch at", s.repo)
