//! F4: a failing run must persist its schedule regardless of earlier runs on the same thread.
use shuttle::scheduler::DfsScheduler;
use shuttle::{Config, FailurePersistence, Runner};
use std::panic::{catch_unwind, AssertUnwindSafe};

fn failing_run(persist: FailurePersistence) {
    let mut config = Config::new();
    config.failure_persistence = persist;
    let runner = Runner::new(DfsScheduler::new(None, false), config);
    let r = catch_unwind(AssertUnwindSafe(|| {
        runner.run(|| {
            let t = shuttle::thread::spawn(|| {});
            t.join().unwrap();
            panic!("boom");
        });
    }));
    assert!(r.is_err());
}

fn files_in(dir: &std::path::Path) -> usize {
    std::fs::read_dir(dir).map(|d| d.count()).unwrap_or(0)
}

#[test]
fn second_failure_on_the_same_thread_is_persisted() {
    let dir = std::env::temp_dir().join(format!("f4_demo_a_{}", std::process::id()));
    let _ = std::fs::remove_dir_all(&dir);
    std::fs::create_dir_all(&dir).unwrap();
    failing_run(FailurePersistence::File(Some(dir.clone())));
    assert_eq!(files_in(&dir), 1, "first failing run persists its schedule");
    failing_run(FailurePersistence::File(Some(dir.clone())));
    assert_eq!(files_in(&dir), 2, "second failing run (same schedule length) must persist its schedule too");
    let _ = std::fs::remove_dir_all(&dir);
}

#[test]
fn persistence_follows_the_runs_own_configuration() {
    let dir = std::env::temp_dir().join(format!("f4_demo_b_{}", std::process::id()));
    let _ = std::fs::remove_dir_all(&dir);
    std::fs::create_dir_all(&dir).unwrap();
    failing_run(FailurePersistence::None);
    assert_eq!(files_in(&dir), 0);
    failing_run(FailurePersistence::File(Some(dir.clone())));
    assert_eq!(files_in(&dir), 1, "a run with persistence enabled must persist even after a run with persistence disabled");
    let _ = std::fs::remove_dir_all(&dir);
}
