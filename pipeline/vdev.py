"""dev helper: python3 -m pipeline.vdev <unit> [repo_dir]  : generate + verify one lane-V unit, print the verdict per function."""
import sys
from .verus import check_unit
from .scratch import REPO
def main():
    name = sys.argv[1]
    repo = sys.argv[2] if len(sys.argv) > 2 else REPO
    res, unit = check_unit(name, repo)
    print("unit", name, "ok" if res["ok"] else "NOT OK", "verified", res["verified"], "errors", res["n_errors"],
          "canary_rejected", res["canary_rejected"], "wall", res["wall_s"], "smt_ms", res["smt_ms"])
    for e in res["errors"]:
        print("  ERR [%s] fn=%s line=%s: %s" % (e["cls"], e.get("fn"), e["line"], e["msg"]))
    if not res["ok"]:
        print(res["stderr"][-5000:])
    for r in res["rewrites"]:
        print("  rule", r["rule"][:70], "@", r["where"], "fired", r["fired"])
    print("generated:", res["generated"])
main()
