#!/bin/bash
cd /verif
for p in ${@:-C15 C20 C06 C03 C08 C02 C04 C18}; do
  t0=$(date +%s)
  ./check $p --tier thorough > logs/thorough_$p.txt 2>&1
  echo "$p exit=$? wall=$(( $(date +%s) - t0 ))s $(tail -1 logs/thorough_$p.txt)"
done
