//! F6: `RwLockWriteGuard::downgrade_to_upgradable` must complete without waiting (lock_api contract), on every schedule.
use shuttle::{check_dfs, thread};
use shuttle_parking_lot_impl::{RwLock, RwLockWriteGuard};
use std::sync::Arc;

#[test]
fn downgrade_to_upgradable_never_waits() {
    check_dfs(
        || {
            let lock = Arc::new(RwLock::new(0u8));
            let w = lock.write();
            let l2 = lock.clone();
            // another task asks for upgradable access while we hold the lock exclusively
            let t = thread::spawn(move || {
                let u = l2.upgradable_read();
                drop(u);
            });
            thread::yield_now();
            // lock_api: downgrades are atomic and do not block
            let u = RwLockWriteGuard::downgrade_to_upgradable(w);
            drop(u);
            t.join().unwrap();
        },
        None,
    );
}
