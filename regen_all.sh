#!/bin/bash
# Re-run every registered quick check on the current tree, one after the other (evidence is rewritten by each).
cd /verif
for p in ${@:-C01 C02 C03 C04 C05 C06 C07 C08 C09 C10 C12 C13 C14 C15 C16 C17 C18 C20}; do
  t0=$(date +%s)
  ./check $p --tier quick > logs/regen_$p.txt 2>&1
  echo "$p exit=$? wall=$(( $(date +%s) - t0 ))s $(tail -1 logs/regen_$p.txt)"
done
