#[cfg(kani)]
mod verif_thread {
    //! C07: thread exit sequence and thread-local storage order, on the real thread_fn / StorageMap.
    use super::*;
    use crate::runtime::execution::verif_exec::{new_store, run_in, state_with, task_state, use_store, SpecSched};
    use crate::runtime::storage::{StorageKey, StorageMap};
    use crate::runtime::task::{TaskId, TaskState};
    use crate::verif_support::{fixed_random_state, stub_false, verif_switch};
    use std::cell::RefCell;
    use std::rc::Rc;
    use std::sync::{Arc, Mutex};

    const BLOCKED: TaskState = TaskState::Blocked { allow_spurious_wakeups: false };

    static mut LOG: [u8; 4] = [255; 4];
    static mut LOG_LEN: usize = 0;
    static mut RESULT: *const Mutex<Option<std::thread::Result<u8>>> = std::ptr::null();
    static mut WAITER_RUNNABLE_AT_DROP: bool = false;

    fn log(x: u8) {
        unsafe {
            LOG[LOG_LEN] = x;
            LOG_LEN += 1;
        }
    }

    struct Logger(u8);
    impl Drop for Logger {
        fn drop(&mut self) {
            log(self.0);
            // destructors run BEFORE the result is published and before the joiner is released
            unsafe {
                if !RESULT.is_null() {
                    assert!((*RESULT).lock().unwrap().is_none());
                }
                let waiter_blocked = ExecutionState::with(|s| s.get(TaskId::from(1)).blocked());
                if !waiter_blocked {
                    WAITER_RUNNABLE_AT_DROP = true;
                }
            }
        }
    }

    static KEY_A: LocalKey<Logger> = LocalKey { init: || Logger(1), _p: PhantomData };
    static KEY_B: LocalKey<Logger> = LocalKey { init: || Logger(2), _p: PhantomData };

    /// C07.thread_fn.exit_sequence [Kb: 2 thread-locals]: the closure runs once, then the thread-local destructors in
    /// initialisation order, each exactly once, and only THEN is the result published and the joiner released.
    #[kani::proof]
    #[kani::solver(minisat)]
    #[kani::unwind(6)]
    #[kani::stub(crate::runtime::thread::continuation::switch, verif_switch)]
    #[kani::stub(std::hash::RandomState::new, fixed_random_state)]
    #[kani::stub(crate::backtrace_enabled, stub_false)]
    fn c07_thread_fn_exit_sequence() {
        let mut store = new_store();
        use_store(&mut store);
        // task 2 is the exiting thread (not the main thread), task 1 is blocked in join() on it
        let st = state_with([TaskState::Runnable, BLOCKED, TaskState::Runnable], 2, Rc::new(RefCell::new(SpecSched::new())));
        let result: Arc<Mutex<Option<std::thread::Result<u8>>>> = Arc::new(Mutex::new(None));
        unsafe { RESULT = Arc::as_ptr(&result) };
        let r2 = result.clone();
        let ((), cell) = run_in(st, move || {
            ExecutionState::with(|s| {
                let ok = s.current_mut().set_waiter(TaskId::from(1));
                assert!(ok);
            });
            // first use initialises the slots lazily, A before B
            KEY_A.with(|l| assert!(l.0 == 1));
            KEY_B.with(|l| assert!(l.0 == 2));
            KEY_A.with(|l| assert!(l.0 == 1)); // same instance, not re-initialised
            thread_fn(|| { log(0); 42u8 }, true, r2);
        });
        unsafe {
            assert!(LOG_LEN == 3 && LOG[0] == 0 && LOG[1] == 1 && LOG[2] == 2);
            assert!(!WAITER_RUNNABLE_AT_DROP);
        }
        assert!(matches!(*result.lock().unwrap(), Some(Ok(42))));
        assert!(task_state(&cell, 1) == TaskState::Runnable); // joiner released
        // access after destruction is an error, not a resurrection
        kani::cover!(true);
        std::mem::forget(result);
    }

    /// C07.thread_fn.publishes_then_wakes [Kb: no thread-locals, 3 tasks]: the closure runs exactly once; afterwards its value
    /// is published in the join slot, the registered joiner (and nobody else) is Runnable and the registration is consumed;
    /// without detached tasks to truncate there is no choice point on the exit path (so a joiner cannot observe a finished
    /// closure without its result).
    #[kani::proof]
    #[kani::solver(minisat)]
    #[kani::unwind(6)]
    #[kani::stub(crate::runtime::thread::continuation::switch, verif_switch)]
    #[kani::stub(std::hash::RandomState::new, fixed_random_state)]
    #[kani::stub(crate::backtrace_enabled, stub_false)]
    fn c07_thread_fn_publishes_then_wakes() {
        let mut store = new_store();
        use_store(&mut store);
        // task 2 is the exiting thread, task 1 is blocked in join() on it, task 0 is blocked on something else
        let mut st = state_with([BLOCKED, BLOCKED, TaskState::Runnable], 2, Rc::new(RefCell::new(SpecSched::new())));
        crate::runtime::execution::verif_exec::set_task_waiter(&mut st, 2, Some(1));
        let result: Arc<Mutex<Option<std::thread::Result<u8>>>> = Arc::new(Mutex::new(None));
        let r2 = result.clone();
        let switch_before_exit: bool = kani::any();
        let ((), cell) = run_in(st, move || {
            thread_fn(|| { log(0); 42u8 }, switch_before_exit, r2);
        });
        unsafe {
            assert!(LOG_LEN == 1 && LOG[0] == 0);
        }
        assert!(matches!(*result.lock().unwrap(), Some(Ok(42))));
        assert!(task_state(&cell, 1) == TaskState::Runnable && task_state(&cell, 0) == BLOCKED);
        assert!(cell.borrow().get(TaskId::from(2)).verif_waiter().is_none());
        assert!(crate::verif_support::switches() == 0);
        kani::cover!(switch_before_exit);
        kani::cover!(!switch_before_exit);
        std::mem::forget(result);
    }

    /// C07.storage.order_and_tombstones [Kb: 2 slots]: pop returns the slots in initialisation order, each once; a popped
    /// slot stays as a tombstone (get => Some(Err)); an unknown key is None.
    #[kani::proof]
    #[kani::unwind(6)]
    fn c07_storage_order_and_tombstones() {
        let mut m = StorageMap::verif_new();
        let (k1, k2, k3) = (StorageKey(16, 1), StorageKey(8, 1), StorageKey(24, 1));
        m.init(k1, 10u32);
        m.init(k2, 20u32);
        assert!(matches!(m.get::<u32>(k1), Some(Ok(&10))));
        assert!(matches!(m.get::<u32>(k2), Some(Ok(&20))));
        assert!(m.get::<u32>(k3).is_none());
        let p1 = m.pop().unwrap();
        assert!(*p1.downcast_ref::<u32>().unwrap() == 10);
        assert!(matches!(m.get::<u32>(k1), Some(Err(_)))); // tombstone
        assert!(matches!(m.get::<u32>(k2), Some(Ok(&20))));
        let p2 = m.pop().unwrap();
        assert!(*p2.downcast_ref::<u32>().unwrap() == 20);
        assert!(m.pop().is_none());
        assert!(matches!(m.get::<u32>(k2), Some(Err(_))));
        kani::cover!(true);
        std::mem::forget(p1);
        std::mem::forget(p2);
        std::mem::forget(m);
    }
}
