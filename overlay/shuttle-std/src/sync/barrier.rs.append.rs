#[cfg(kani)]
mod verif_barrier {
    //! C05 / C02: Barrier::wait segments (bound 2).
    use super::*;
    use shuttle_engine::runtime::execution::verif_exec::{new_store, run_in, state_with, task_state, use_store, SpecSched};
    use shuttle_engine::runtime::task::TaskState;
    use shuttle_engine::verif_support::{fixed_random_state, stub_false, switches, verif_switch, ENV};

    const SIG: ResourceSignature = ResourceSignature::new_const(ResourceType::Barrier);
    const BLOCKED: TaskState = TaskState::Blocked { allow_spurious_wakeups: false };
    static mut B: *const Barrier = std::ptr::null();
    static mut SEEN_UNCHANGED_AT_FIRST_SWITCH: bool = false;

    fn mk(arrived: bool) -> Barrier {
        mk_n(arrived, 2)
    }

    fn mk_n(arrived: bool, bound: usize) -> Barrier {
        let mut waiters = HashSet::with_hasher(fixed_random_state());
        if arrived {
            waiters.insert(TaskId::from(1));
        }
        Barrier {
            state: Rc::new(RefCell::new(BarrierState {
                bound,
                epoch: 0,
                waiters,
                leader_tokens: HashSet::with_hasher(fixed_random_state()),
                clock: VectorClock::new(),
            })),
            signature: SIG,
        }
    }

    /// at the first choice point of the releasing wait nothing has happened yet (the switch precedes the effect)
    fn env_first_switch() {
        if switches() == 1 {
            unsafe {
                let st = (*B).state.borrow();
                SEEN_UNCHANGED_AT_FIRST_SWITCH = st.epoch == 0 && st.waiters.len() == 1 && st.leader_tokens.is_empty();
            }
        }
    }

    /// C05.barrier.last_arrival_releases [Kb: bound 2]: the arrival that completes the group is preceded by exactly one
    /// choice point (before any effect), bumps the epoch, empties the waiter set, releases exactly the group and leaves
    /// exactly one leader token, which the first task to run takes.
    #[kani::proof]
    #[kani::solver(minisat)]
    #[kani::unwind(8)]
    #[kani::stub(shuttle_engine::runtime::thread::continuation::switch, verif_switch)]
    #[kani::stub(std::hash::RandomState::new, fixed_random_state)]
    #[kani::stub(shuttle_engine::backtrace_enabled, stub_false)]
    fn c05_barrier_last_arrival_releases() {
        let mut store = new_store();
        use_store(&mut store);
        let st = state_with([TaskState::Runnable, BLOCKED, BLOCKED], 0, Rc::new(RefCell::new(SpecSched::new())));
        let b = mk(true);
        unsafe {
            B = &b;
            ENV = Some(env_first_switch);
        }
        let (r, cell) = run_in(st, || b.wait());
        assert!(switches() == 1);
        assert!(unsafe { SEEN_UNCHANGED_AT_FIRST_SWITCH });
        let s = b.state.borrow();
        assert!(s.epoch == 1 && s.waiters.is_empty());
        assert!(r.is_leader() && s.leader_tokens.is_empty()); // exactly one token existed and I took it
        assert!(task_state(&cell, 1) == TaskState::Runnable && task_state(&cell, 0) == TaskState::Runnable);
        assert!(task_state(&cell, 2) == BLOCKED); // not a member of this generation
        kani::cover!(true);
        drop(s);
        std::mem::forget(b);
    }

    /// C05.barrier.early_arrival_blocks [Kb: bound 2]: an arrival that does not complete the group registers and blocks;
    /// the pre-block choice point may be omitted only because blocking commutes (waiters + 1 < bound).
    #[kani::proof]
    #[kani::solver(minisat)]
    #[kani::unwind(8)]
    #[kani::stub(shuttle_engine::runtime::thread::continuation::switch, verif_switch)]
    #[kani::stub(std::hash::RandomState::new, fixed_random_state)]
    #[kani::stub(shuttle_engine::backtrace_enabled, stub_false)]
    fn c05_barrier_early_arrival_blocks() {
        let mut store = new_store();
        use_store(&mut store);
        let st = state_with([TaskState::Runnable, BLOCKED, BLOCKED], 0, Rc::new(RefCell::new(SpecSched::new())));
        let b = mk(false);
        let (r, cell) = run_in(st, || b.wait());
        // (with the switch stubbed the call returns; what matters is the state at the blocking choice point)
        assert!(switches() == 1);
        assert!(task_state(&cell, 0) == BLOCKED);
        let s = b.state.borrow();
        assert!(s.epoch == 0 && s.waiters.len() == 1 && s.waiters.contains(&TaskId::from(0)) && s.leader_tokens.is_empty());
        assert!(!r.is_leader());
        kani::cover!(true);
        drop(s);
        std::mem::forget(b);
    }

    /// C02.barrier.completing_arrival_is_choice_point [Kb: bound 1]: a wait() that completes its group (here the group of
    /// one) releases tasks and bumps the epoch: not a blocking step, so exactly one choice point precedes it.
    #[kani::proof]
    #[kani::solver(minisat)]
    #[kani::unwind(8)]
    #[kani::stub(shuttle_engine::runtime::thread::continuation::switch, verif_switch)]
    #[kani::stub(std::hash::RandomState::new, fixed_random_state)]
    #[kani::stub(shuttle_engine::backtrace_enabled, stub_false)]
    fn c02_barrier_completing_arrival() {
        let mut store = new_store();
        use_store(&mut store);
        let st = state_with([TaskState::Runnable, BLOCKED, BLOCKED], 0, Rc::new(RefCell::new(SpecSched::new())));
        let b = mk_n(false, 1);
        let (r, cell) = run_in(st, || b.wait());
        assert!(switches() == 1);
        assert!(r.is_leader());
        assert!(task_state(&cell, 0) == TaskState::Runnable && task_state(&cell, 1) == BLOCKED);
        kani::cover!(true);
        std::mem::forget(b);
    }
}
