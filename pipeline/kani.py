"""Lane K / Kb: run Kani harnesses that live (via the overlay) inside the real crates."""
import concurrent.futures
import os
import re
import resource
import subprocess
import time

KANI_FLAGS = [
    "-Z", "unstable-options", "--ignore-global-asm",
    "-Z", "function-contracts", "-Z", "stubbing",
    "--output-format=terse",
]

MEM_CAP_BYTES = int(os.environ.get("VERIF_KANI_MEM_GB", "14")) * (1 << 30)


def _env(target):
    e = dict(os.environ)
    e["CARGO_TARGET_DIR"] = target
    e["RUSTFLAGS"] = "--cap-lints=warn"
    e["CARGO_NET_OFFLINE"] = "true"
    e.pop("RUSTC_WRAPPER", None)
    return e


def _limit():
    resource.setrlimit(resource.RLIMIT_AS, (MEM_CAP_BYTES, MEM_CAP_BYTES))


def build_cmd(crate, features, harness, extra=()):
    cmd = ["cargo", "kani", "-p", crate] + KANI_FLAGS
    if features:
        cmd += ["--features", ",".join(features)]
    cmd += ["--harness", harness, "--exact"] if "::" in harness else ["--harness", harness]
    cmd += list(extra)
    return cmd


def warm(scratch, crate, features):
    """Compile the crate for Kani once (so parallel harness runs find a warm cache). Returns (ok, log)."""
    cmd = ["cargo", "kani", "-p", crate] + KANI_FLAGS + ["--only-codegen"]
    if features:
        cmd += ["--features", ",".join(features)]
    t0 = time.time()
    p = subprocess.run(cmd, cwd=scratch.repo, env=_env(scratch.target), stdout=subprocess.PIPE,
                       stderr=subprocess.STDOUT, text=True)
    return p.returncode == 0, p.stdout, time.time() - t0


RESULT_RE = re.compile(r"\*\* (\d+) of (\d+) failed")
COVER_RE = re.compile(r"\*\* (\d+) of (\d+) cover properties satisfied")


def parse(out):
    r = {"status": "undecided", "checks": 0, "failed": 0, "covers": 0, "covers_sat": 0,
         "failed_checks": [], "solver_s": None, "reason": ""}
    m = RESULT_RE.search(out)
    if m:
        r["failed"] = int(m.group(1))
        r["checks"] = int(m.group(2))
    m = COVER_RE.search(out)
    if m:
        r["covers_sat"] = int(m.group(1))
        r["covers"] = int(m.group(2))
    m = re.search(r"Verification Time: ([0-9.]+)s", out)
    if m:
        r["solver_s"] = float(m.group(1))
    for fm in re.finditer(r"Failed Checks: (.*)\n\s*File: \"([^\"]*)\", line (\d+), in (\S+)", out):
        r["failed_checks"].append({"desc": fm.group(1).strip(), "file": fm.group(2), "line": int(fm.group(3)),
                                   "fn": fm.group(4)})
    if "VERIFICATION:- SUCCESSFUL" in out:
        r["status"] = "ok"
    elif "VERIFICATION:- FAILED" in out:
        r["status"] = "failed"
        # failures that are tool limits, not refutations
        descs = " | ".join(f["desc"] for f in r["failed_checks"])
        if r["failed_checks"] and all(
            ("unwinding assertion" in f["desc"]) or ("is not currently supported" in f["desc"])
            or ("unsupported" in f["desc"].lower())
            for f in r["failed_checks"]
        ):
            r["status"] = "undecided"
            r["reason"] = "tool limit: " + descs
    else:
        r["reason"] = "no verdict in output (compile error, crash, timeout or memory cap)"
    return r


def run_harness(scratch, crate, features, harness, timeout_s, logdir, extra=()):
    cmd = build_cmd(crate, features, harness, extra)
    t0 = time.time()
    try:
        p = subprocess.run(cmd, cwd=scratch.repo, env=_env(scratch.target), stdout=subprocess.PIPE,
                           stderr=subprocess.STDOUT, text=True, timeout=timeout_s, preexec_fn=_limit)
        out = p.stdout
        timed_out = False
    except subprocess.TimeoutExpired as e:
        out = (e.stdout or b"")
        if isinstance(out, bytes):
            out = out.decode("utf-8", "replace")
        timed_out = True
        subprocess.run(["pkill", "-f", "cbmc.*" + re.escape(harness)], check=False)
    wall = time.time() - t0
    os.makedirs(logdir, exist_ok=True)
    logp = os.path.join(logdir, harness.replace("::", "__") + ".log")
    with open(logp, "w") as fh:
        fh.write("$ " + " ".join(cmd) + "\n" + out)
    r = parse(out)
    if timed_out:
        r["status"] = "undecided"
        r["reason"] = "timeout after %ds" % timeout_s
    r["wall_s"] = round(wall, 1)
    r["log"] = logp
    r["cmd"] = " ".join(cmd)
    return r


def run_many(scratch, jobs, logdir, parallel):
    """jobs: list of dicts {crate, features, harness, timeout_s, extra}. Returns {harness: result}."""
    results = {}
    # warm each (crate, features) once
    seen = set()
    for j in jobs:
        key = (j["crate"], tuple(j.get("features") or ()))
        if key in seen:
            continue
        seen.add(key)
        ok, log, wall = warm(scratch, key[0], list(key[1]))
        os.makedirs(logdir, exist_ok=True)
        with open(os.path.join(logdir, "build_%s_%s.log" % (key[0], "_".join(key[1]) or "default")), "w") as fh:
            fh.write(log)
        if not ok:
            for jj in jobs:
                if (jj["crate"], tuple(jj.get("features") or ())) == key:
                    results[jj["harness"]] = {
                        "status": "undecided", "reason": "kani build of %s failed" % key[0], "log_tail": log[-4000:],
                        "wall_s": round(wall, 1), "failed_checks": [], "checks": 0, "covers": 0, "covers_sat": 0,
                        "cmd": "cargo kani -p %s --only-codegen" % key[0],
                    }
    todo = [j for j in jobs if j["harness"] not in results]
    with concurrent.futures.ThreadPoolExecutor(max_workers=parallel) as ex:
        futs = {
            ex.submit(run_harness, scratch, j["crate"], j.get("features") or [], j["harness"],
                      j.get("timeout_s", 600), logdir, j.get("extra", ())): j
            for j in todo
        }
        for f in concurrent.futures.as_completed(futs):
            j = futs[f]
            results[j["harness"]] = f.result()
    return results
