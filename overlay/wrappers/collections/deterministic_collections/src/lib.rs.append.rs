#[cfg(kani)]
mod verif_det {
    //! C20: every way of constructing a deterministic HashMap/HashSet yields the fixed hasher state (keys (0,0)),
    //! so iteration order is a function of the operation history alone (given A-hashbrown).
    use super::*;

    fn keys(rs: &RandomState) -> (u64, u64) {
        // RandomState is two u64 SipHash keys
        unsafe { std::mem::transmute_copy::<RandomState, (u64, u64)>(rs) }
    }

    /// C20.collections.map_constructors [K: all keys/values of u8; constructors new, with_capacity, default, From<[_;1]>, FromIterator, From<std HashMap with ARBITRARY hasher keys>, clone]
    #[kani::proof]
    #[kani::unwind(12)]
    fn c20_collections_map_constructors() {
        let k: u8 = kani::any();
        let v: u8 = kani::any();
        let a: HashMap<u8, u8> = HashMap::new();
        assert!(keys(a.hasher()) == (0, 0));
        let b: HashMap<u8, u8> = HashMap::with_capacity(kani::any::<u8>() as usize % 4);
        assert!(keys(b.hasher()) == (0, 0));
        let c: HashMap<u8, u8> = Default::default();
        assert!(keys(c.hasher()) == (0, 0));
        let d: HashMap<u8, u8> = HashMap::from([(k, v)]);
        assert!(keys(d.hasher()) == (0, 0) && d.len() == 1 && d.get(&k) == Some(&v));
        let e: HashMap<u8, u8> = std::iter::once((k, v)).collect();
        assert!(keys(e.hasher()) == (0, 0) && e.len() == 1);
        // a std map with an arbitrary (e.g. process-random) hasher state is re-hashed under the fixed state
        let foreign: RandomState = unsafe { std::mem::transmute::<(u64, u64), RandomState>((kani::any(), kani::any())) };
        let mut s: StdHashMap<u8, u8, RandomState> = StdHashMap::with_hasher(foreign);
        s.insert(k, v);
        let f: HashMap<u8, u8> = HashMap::from(s);
        assert!(keys(f.hasher()) == (0, 0) && f.get(&k) == Some(&v));
        let g = f.clone();
        assert!(keys(g.hasher()) == (0, 0));
        kani::cover!(true);
        std::mem::forget((a, b, c, d, e, f, g));
    }

    /// C20.collections.set_constructors [K]
    #[kani::proof]
    #[kani::unwind(12)]
    fn c20_collections_set_constructors() {
        let k: u8 = kani::any();
        let a: HashSet<u8> = HashSet::new();
        assert!(keys(a.hasher()) == (0, 0));
        let b: HashSet<u8> = HashSet::with_capacity(kani::any::<u8>() as usize % 4);
        assert!(keys(b.hasher()) == (0, 0));
        let c: HashSet<u8> = Default::default();
        assert!(keys(c.hasher()) == (0, 0));
        let d: HashSet<u8> = HashSet::from([k]);
        assert!(keys(d.hasher()) == (0, 0) && d.contains(&k));
        let e: HashSet<u8> = std::iter::once(k).collect();
        assert!(keys(e.hasher()) == (0, 0));
        let foreign: RandomState = unsafe { std::mem::transmute::<(u64, u64), RandomState>((kani::any(), kani::any())) };
        let mut s: StdHashSet<u8, RandomState> = StdHashSet::with_hasher(foreign);
        s.insert(k);
        let f: HashSet<u8> = HashSet::from(s);
        assert!(keys(f.hasher()) == (0, 0) && f.contains(&k));
        // set algebra builds new sets: they are deterministic too
        let u = &d | &e;
        let i = &d & &e;
        let x = &d ^ &e;
        let m = &d - &e;
        assert!(keys(u.hasher()) == (0, 0) && keys(i.hasher()) == (0, 0) && keys(x.hasher()) == (0, 0) && keys(m.hasher()) == (0, 0));
        assert!(u.contains(&k) && i.contains(&k) && x.is_empty() && m.is_empty());
        kani::cover!(true);
        std::mem::forget((a, b, c, d, e, f, u, i, x, m));
    }

    /// what `RandomState::new()` would give in a real process: anything but the fixed keys
    fn stub_process_random_state() -> RandomState {
        unsafe { std::mem::transmute::<(u64, u64), RandomState>((0x1234, 0x5678)) }
    }

    /// C20.collections.hasher_is_fixed [K: element-free; every constructor and every set operator]: whatever way a
    /// deterministic map/set comes into existence, its hasher state is the fixed one -- never `RandomState::new()`
    /// (which is stubbed to a recognisable non-fixed value, as in a real process).
    #[kani::proof]
    #[kani::unwind(6)]
    #[kani::stub(std::hash::RandomState::new, stub_process_random_state)]
    fn c20_collections_hasher_is_fixed() {
        let m1: HashMap<u8, u8> = HashMap::new();
        let m2: HashMap<u8, u8> = HashMap::with_capacity(0);
        let m3: HashMap<u8, u8> = Default::default();
        let m4: HashMap<u8, u8> = std::iter::empty().collect();
        let m5: HashMap<u8, u8> = HashMap::from(StdHashMap::<u8, u8, RandomState>::with_hasher(stub_process_random_state()));
        assert!(keys(m1.hasher()) == (0, 0) && keys(m2.hasher()) == (0, 0) && keys(m3.hasher()) == (0, 0));
        assert!(keys(m4.hasher()) == (0, 0) && keys(m5.hasher()) == (0, 0));
        let s1: HashSet<u8> = HashSet::new();
        let s2: HashSet<u8> = HashSet::with_capacity(0);
        let s3: HashSet<u8> = Default::default();
        let s4: HashSet<u8> = std::iter::empty().collect();
        let s5: HashSet<u8> = HashSet::from(StdHashSet::<u8, RandomState>::with_hasher(stub_process_random_state()));
        assert!(keys(s1.hasher()) == (0, 0) && keys(s2.hasher()) == (0, 0) && keys(s3.hasher()) == (0, 0));
        assert!(keys(s4.hasher()) == (0, 0) && keys(s5.hasher()) == (0, 0));
        let u = &s1 | &s2;
        let i = &s1 & &s2;
        let x = &s1 ^ &s2;
        let d = &s1 - &s2;
        assert!(keys(u.hasher()) == (0, 0) && keys(i.hasher()) == (0, 0) && keys(x.hasher()) == (0, 0) && keys(d.hasher()) == (0, 0));
        kani::cover!(true);
        std::mem::forget((m1, m2, m3, m4, m5, s1, s2, s3, s4, s5, u, i, x, d));
    }
}
