#[cfg(kani)]
mod verif_c16 {
    use super::varint::{space_needed, ReadVarInt, WriteVarInt};
    use super::*;

    /// Executable form of the spec function `enc(x)`: LEB128, 7 bits per byte, least significant group
    /// first, continuation bit 0x80 on every byte but the last. `enc_len(x) = max(1, ceil(bitlen(x)/7))`.
    fn spec_enc_len(x: u64) -> usize {
        let bits = 64 - x.leading_zeros() as usize;
        if bits == 0 {
            1
        } else {
            (bits + 6) / 7
        }
    }

    fn spec_enc_byte(x: u64, i: usize, len: usize) -> u8 {
        let group = ((x >> (7 * i as u32)) & 0x7F) as u8;
        if i + 1 < len {
            group | 0x80
        } else {
            group
        }
    }

    /// C16.varint.write_is_enc  [K complete: all u64; loop bounded by operand width (10), unwinding assertion on]
    /// write_u64_varint(x) appends exactly enc(x); |enc(x)| == space_needed(x) in 1..=10.
    #[kani::proof]
    #[kani::unwind(12)]
    fn c16_varint_write_is_enc() {
        let x: u64 = kani::any();
        let mut buf: Vec<u8> = Vec::new();
        let r = buf.write_u64_varint(x);
        assert!(r.is_ok());
        let n = buf.len();
        assert!(n == space_needed(x));
        assert!(n == spec_enc_len(x));
        assert!(n >= 1 && n <= 10);
        let i: usize = kani::any();
        kani::assume(i < n);
        assert!(buf[i] == spec_enc_byte(x, i, n));
        kani::cover!(n == 10);
        kani::cover!(n == 1);
    }

    /// C16.varint.read_inverts_write  [K complete: all u64, any trailing bytes]
    /// read_u64_varint(enc(x) ++ rest) == Ok(x), consuming exactly |enc(x)| bytes.
    #[kani::proof]
    #[kani::unwind(12)]
    fn c16_varint_read_inverts_write() {
        let x: u64 = kani::any();
        let mut buf: Vec<u8> = Vec::new();
        buf.write_u64_varint(x).unwrap();
        let n = buf.len();
        let extra: u8 = kani::any();
        buf.push(extra);
        let mut rd: &[u8] = &buf[..];
        let got = rd.read_u64_varint();
        assert!(got.is_ok());
        assert!(got.unwrap() == x);
        assert!(rd.len() == 1);
        assert!(rd[0] == extra);
        let _ = n;
        kani::cover!(x == u64::MAX);
    }

    /// C16.varint.read_total  [K complete: every byte string of length <= 11 (the decoder never reads more than 10)]
    /// read_u64_varint returns Ok or Err, never panics or overflows, consumes <= 10 bytes, and on Ok(v) for a
    /// *canonical-length* encoding re-encoding v gives the consumed prefix.
    #[kani::proof]
    #[kani::unwind(12)]
    fn c16_varint_read_total() {
        let bytes: [u8; 11] = kani::any();
        let len: usize = kani::any();
        kani::assume(len <= 11);
        let mut rd: &[u8] = &bytes[..len];
        let got = rd.read_u64_varint();
        let consumed = len - rd.len();
        assert!(consumed <= 10);
        if let Ok(v) = got {
            assert!(consumed >= 1);
            // value decoded is the little-endian base-128 value of the consumed bytes
            let i: usize = kani::any();
            kani::assume(i < consumed);
            if i < 9 {
                assert!(((v >> (7 * i as u32)) & 0x7F) as u8 == bytes[i] & 0x7F);
            } else {
                assert!((v >> 63) as u8 == bytes[9]);
            }
            // continuation bits
            if i + 1 < consumed {
                assert!(bytes[i] & 0x80 != 0);
            } else {
                assert!(bytes[i] & 0x80 == 0);
            }
        } else {
            // Err only on truncation or a 10th byte other than 0x01
            kani::cover!(consumed == 10);
            kani::cover!(consumed == 0);
        }
        kani::cover!(got.is_ok() && consumed == 10);
    }

    /// C16.codec.whitespace_insensitive  [Kb: a fixed set of concrete strings]
    /// the parser ignores ALL whitespace (spaces, tabs, CR, LF; leading, trailing, interior).
    /// Symbolic strings are out of CBMC's reach (hex + String + bitvec: > 25 min for 4 bytes), so the inputs are concrete.
    #[kani::proof]
    #[kani::unwind(40)]
    fn c16_codec_whitespace_insensitive() {
        let variants: [&str; 5] = ["91010000", "  91010000", "91010000\t\r\n", "91 01\n00\t00", "\n 9 1 0 1 0 0 0 0 \n"];
        let k: usize = kani::any();
        kani::assume(k < 5);
        let r = deserialize_schedule(variants[k]);
        assert!(r.is_some());
        let s = r.unwrap();
        assert!(s.seed == 0 && s.steps.is_empty());
        kani::cover!(k == 4);
    }

    /// C16.codec.rejects_malformed  [Kb: a fixed set of concrete strings]
    /// empty / odd length / not hex / unknown version / cut short  => None (a return value, not a panic).
    #[kani::proof]
    #[kani::unwind(40)]
    fn c16_codec_rejects_malformed() {
        let bad: [&str; 8] = ["", " \n", "9", "zz", "92010000", "91", "9101", "910100"];
        let k: usize = kani::any();
        kani::assume(k < 8);
        let r = deserialize_schedule(bad[k]);
        assert!(r.is_none());
        kani::cover!(k == 0);
        kani::cover!(k == 7);
    }
}
