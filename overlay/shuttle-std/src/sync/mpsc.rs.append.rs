#[cfg(kani)]
mod verif_mpsc {
    //! C06: channel segments. inv_CH: messages.len() <= max(bound,1) (bounded); waiting senders only on bounded channels;
    //! receiver_clock.len() + messages.len() == bound (bound > 0).
    use super::*;
    use shuttle_engine::runtime::execution::verif_exec::{new_store, run_in, state_with, task_state, use_store, SpecSched};
    use shuttle_engine::runtime::task::TaskState;
    use shuttle_engine::verif_support::{fixed_random_state, stub_false, switches, verif_switch};

    const SIG: ResourceSignature = ResourceSignature::new_const(ResourceType::MpscChannel);
    const BLOCKED: TaskState = TaskState::Blocked { allow_spurious_wakeups: false };

    /// a channel holding `m` messages (values 10, 11, ..), with task 1 optionally blocked as sender and task 2 as receiver
    fn mk(bound: Option<usize>, m: usize, sender_waiting: bool, receiver_waiting: bool, receivers: usize, senders: usize) -> Channel<u8> {
        let mut messages: SmallVec<[TimestampedValue<u8>; MAX_INLINE_MESSAGES]> = SmallVec::new();
        let mut i = 0;
        while i < m {
            messages.push(TimestampedValue::new(10 + i as u8, VectorClock::new()));
            i += 1;
        }
        let receiver_clock = match bound {
            Some(b) => {
                let mut s: SmallVec<[VectorClock; MAX_INLINE_MESSAGES]> = SmallVec::new();
                let mut k = m;
                while k < b {
                    s.push(VectorClock::new());
                    k += 1;
                }
                Some(s)
            }
            None => None,
        };
        let mut ws: SmallVec<[TaskId; DEFAULT_INLINE_TASKS]> = SmallVec::new();
        if sender_waiting {
            ws.push(TaskId::from(1));
        }
        let mut wr: SmallVec<[TaskId; DEFAULT_INLINE_TASKS]> = SmallVec::new();
        if receiver_waiting {
            wr.push(TaskId::from(2));
        }
        Channel {
            bound,
            state: Rc::new(RefCell::new(ChannelState {
                messages,
                receiver_clock,
                known_senders: senders,
                known_receivers: receivers,
                waiting_senders: ws,
                waiting_receivers: wr,
            })),
            signature: SIG,
        }
    }

    fn try_send_contract(bound: Option<usize>) {
        let mut store = new_store();
        use_store(&mut store);
        let st = state_with([TaskState::Runnable, BLOCKED, BLOCKED], 0, std::rc::Rc::new(RefCell::new(SpecSched::new())));
        let cap = match bound { Some(b) => if b == 0 { 1 } else { b }, None => 2 };
        let m: usize = kani::any();
        kani::assume(m <= cap);
        let sw: bool = kani::any();
        let rw: bool = kani::any();
        kani::assume(!sw || bound.is_some());
        // a receiver only waits on an empty channel; a sender only waits when it had to
        kani::assume(!rw || m == 0);
        let receivers: usize = if kani::any() { 1 } else { 0 };
        let ch = mk(bound, m, sw, rw, receivers, 2);
        let (r, cell) = run_in(st, || ch.try_send(99));
        assert!(switches() == 1);
        let full = bound.is_some() && m >= cap;
        let must_block = full || sw || (bound == Some(0) && !rw);
        let s = ch.state.borrow();
        if receivers == 0 {
            assert!(matches!(r, Err(TrySendError::Disconnected(99))));
            assert!(s.messages.len() == m);
        } else if must_block {
            // Full is reported exactly when a blocking send would have to wait: the channel is full, OR a sender is
            // already queued (no overtaking), OR (rendezvous) no receiver is waiting
            assert!(matches!(r, Err(TrySendError::Full(99))));
            assert!(s.messages.len() == m && s.waiting_senders.len() == sw as usize);
            assert!(task_state(&cell, 2) == BLOCKED);
        } else {
            assert!(r.is_ok());
            // appended at the tail; capacity respected
            assert!(s.messages.len() == m + 1 && s.messages[m].value == 99);
            assert!(bound.is_none() || s.messages.len() <= cap);
            if m > 0 {
                assert!(s.messages[0].value == 10);
            }
            // the waiting receiver is released
            assert!(task_state(&cell, 2) == if rw { TaskState::Runnable } else { BLOCKED });
        }
        assert!(task_state(&cell, 1) == BLOCKED);
        kani::cover!(receivers == 1 && !must_block);
        kani::cover!(receivers == 0 || must_block);
        drop(s);
        std::mem::forget(r);
        std::mem::forget(ch);
    }

    macro_rules! seg {
        ($name:ident, $body:expr) => {
            #[kani::proof]
            #[kani::solver(minisat)]
            #[kani::unwind(6)]
            #[kani::stub(shuttle_engine::runtime::thread::continuation::switch, verif_switch)]
            #[kani::stub(std::hash::RandomState::new, fixed_random_state)]
            #[kani::stub(shuttle_engine::backtrace_enabled, stub_false)]
            fn $name() {
                $body
            }
        };
    }

    seg!(c06_try_send_bounded1, try_send_contract(Some(1)));
    seg!(c06_try_send_rendezvous, try_send_contract(Some(0)));
    seg!(c06_try_send_unbounded, try_send_contract(None));

    fn try_recv_contract(bound: Option<usize>, m: usize, sw: bool) {
        let mut store = new_store();
        use_store(&mut store);
        let st = state_with([TaskState::Runnable, BLOCKED, BLOCKED], 0, std::rc::Rc::new(RefCell::new(SpecSched::new())));
        let cap = match bound { Some(b) => if b == 0 { 1 } else { b }, None => 2 };
        assert!(m <= cap && (!sw || (bound.is_some() && (m >= cap || bound == Some(0)))));
        let senders: usize = if kani::any() { 1 } else { 0 };
        let ch = mk(bound, m, sw, false, 1, senders);
        let (r, cell) = run_in(st, || ch.try_recv());
        assert!(switches() == 1);
        let s = ch.state.borrow();
        if m == 0 {
            // nothing to receive: Disconnected iff every sender is gone, else Empty; nothing is invented
            if senders == 0 {
                assert!(r == Err(TryRecvError::Disconnected));
            } else {
                assert!(r == Err(TryRecvError::Empty));
            }
            assert!(s.messages.len() == 0);
        } else {
            // FIFO: the head is delivered exactly once, also after the senders are gone (drain before disconnect)
            assert!(r == Ok(10));
            assert!(s.messages.len() == m - 1);
            if m == 2 {
                assert!(s.messages[0].value == 11);
            }
            // a sender blocked on a full bounded channel is released by the freed slot
            if sw && bound != Some(0) {
                assert!(task_state(&cell, 1) == TaskState::Runnable);
            }
        }
        kani::cover!(senders == 0);
        kani::cover!(senders == 1);
        drop(s);
        std::mem::forget(ch);
    }

    seg!(c06_try_recv_bounded1_empty, try_recv_contract(Some(1), 0, false));
    seg!(c06_try_recv_bounded1_full, try_recv_contract(Some(1), 1, true));
    seg!(c06_try_recv_unbounded_two, try_recv_contract(None, 2, false));

    /// C06.mpsc.must_block [K]: the two blocking predicates against their specification.
    /// (cfg(verif_fragile): calls two private helpers by name; see pipeline/kani.py)
    #[cfg(verif_fragile)]
    seg!(c06_must_block_predicates, {
        let bound = match kani::any::<u8>() % 3 { 0 => None, 1 => Some(0), _ => Some(1) };
        let cap = match bound { Some(b) => if b == 0 { 1 } else { b }, None => 2 };
        let m: usize = kani::any();
        kani::assume(m <= cap);
        let sw: bool = kani::any();
        let rw: bool = kani::any();
        let ch = mk(bound, m, sw, rw, 1, 1);
        let s = ch.state.borrow();
        let full = bound.is_some() && m >= cap;
        assert!(ch.sender_must_block(&s) == (full || sw || (bound == Some(0) && !rw)));
        assert!(ch.receiver_must_block(&s) == (m == 0 || rw));
        kani::cover!(ch.sender_must_block(&s));
        kani::cover!(!ch.sender_must_block(&s));
        drop(s);
        std::mem::forget(ch);
    });

    // ---- C02 / C06: dropping an endpoint is a visible operation (the peer observes Disconnected) ----
    // C06 (effects): afterwards the endpoint count is one less, buffered messages are untouched (they are drained before
    // disconnection is reported), and if this was the last endpoint every peer blocked on the channel is released,
    // otherwise nobody is woken.
    // C02 (choice point): dropping the LAST endpoint does not commute with the peer's operations (Empty vs Disconnected),
    // so a choice point must precede it, taken BEFORE the count changes (otherwise `send; drop` is one atomic step).
    // Dropping another endpoint commutes with everything, so no choice point is demanded for it.
    use shuttle_engine::verif_support::ENV;
    static mut OBS: *const RefCell<ChannelState<u8>> = std::ptr::null();
    static mut SEEN_SENDERS: usize = usize::MAX;
    static mut SEEN_RECEIVERS: usize = usize::MAX;
    fn env_observe() {
        unsafe {
            let s = (*OBS).borrow();
            SEEN_SENDERS = s.known_senders;
            SEEN_RECEIVERS = s.known_receivers;
        }
    }

    /// which: 0 = Sender, 1 = SyncSender, 2 = Receiver
    fn drop_contract(which: u8, choice_point: bool) {
        let mut store = new_store();
        use_store(&mut store);
        let st = state_with([TaskState::Runnable, BLOCKED, BLOCKED], 0, std::rc::Rc::new(RefCell::new(SpecSched::new())));
        let bound = if which == 0 { None } else { Some(1) };
        let m: usize = if kani::any() { 1 } else { 0 };
        // a receiver (task 2) waits only on an empty channel; a sender (task 1) only on a bounded one: on a full one, or on
        // an EMPTY one too (a recv has just freed the slot and woken it but it has not run yet; rendezvous: no receiver)
        let rw: bool = kani::any();
        kani::assume(!rw || m == 0);
        let sw: bool = kani::any();
        kani::assume(!sw || bound.is_some());
        let others: usize = if kani::any() { 1 } else { 0 };
        let (senders, receivers) = if which == 2 { (1, 1 + others) } else { (1 + others, 1) };
        let ch = Arc::new(mk(bound, m, sw, rw, receivers, senders));
        let keep = ch.clone();
        unsafe {
            OBS = &*keep.state as *const _;
            ENV = Some(env_observe);
        }
        let ((), cell) = run_in(st, || match which {
            0 => drop(Sender { inner: ch }),
            1 => drop(SyncSender { inner: ch }),
            _ => drop(Receiver { inner: ch }),
        });
        if choice_point {
            if others == 0 {
                // one choice point, and the peer could still run before the endpoint disappeared
                assert!(switches() == 1);
                unsafe {
                    assert!(SEEN_SENDERS == senders && SEEN_RECEIVERS == receivers);
                }
            }
            kani::cover!(others == 0);
            std::mem::forget(keep);
            return;
        }
        let s = keep.state.borrow();
        assert!(s.messages.len() == m);
        if which == 2 {
            assert!(s.known_receivers == receivers - 1 && s.known_senders == senders);
            assert!(task_state(&cell, 1) == if sw && others == 0 { TaskState::Runnable } else { BLOCKED });
            assert!(task_state(&cell, 2) == BLOCKED);
        } else {
            assert!(s.known_senders == senders - 1 && s.known_receivers == receivers);
            assert!(task_state(&cell, 2) == if rw && others == 0 { TaskState::Runnable } else { BLOCKED });
            assert!(task_state(&cell, 1) == BLOCKED);
        }
        kani::cover!(others == 0 && (rw || sw));
        kani::cover!(others == 1);
        drop(s);
        std::mem::forget(keep);
    }

    seg!(c02_mpsc_sender_drop, drop_contract(0, true));
    seg!(c02_mpsc_sync_sender_drop, drop_contract(1, true));
    seg!(c02_mpsc_receiver_drop, drop_contract(2, true));
    seg!(c06_mpsc_sender_drop, drop_contract(0, false));
    seg!(c06_mpsc_sync_sender_drop, drop_contract(1, false));
    seg!(c06_mpsc_receiver_drop, drop_contract(2, false));
}
