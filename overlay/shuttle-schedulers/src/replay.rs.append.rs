#[cfg(kani)]
mod verif_replay {
    use super::*;
    use shuttle_engine::runtime::execution::verif_exec::{any_current, new_store, N};

    fn any_step() -> ScheduleStep {
        if kani::any() { ScheduleStep::Random } else { ScheduleStep::Task(TaskId::from(kani::any::<usize>() % 4)) }
    }

    fn sched2() -> ReplayScheduler {
        let mut steps = Vec::with_capacity(4);
        steps.push(any_step());
        steps.push(any_step());
        let mut r = ReplayScheduler::new_from_schedule(Schedule { seed: 7, steps });
        let k: usize = kani::any();
        kani::assume(k <= 2);
        r.steps = k;
        r.allow_incomplete = kani::any();
        r
    }

    /// C01.replay.next_task [K: every 2-step schedule, every cursor, 1..=3 offered tasks; no target clock]
    /// serves task steps strictly in recorded order: Some(t) and cursor+1 iff steps[cursor] == Task(t) and t is offered;
    /// a step whose task is not offered is refused (None, cursor unchanged) when incomplete replays are allowed.
    #[kani::proof]
    #[kani::unwind(6)]
    fn c01_replay_next_task() {
        let mut r = sched2();
        let k = r.steps;
        let store = new_store();
        let refs: [&Task; N] = [&store[0], &store[1], &store[2]];
        let n: usize = kani::any();
        kani::assume(n >= 1 && n <= N);
        // requires (otherwise the scheduler panics, see c01_replay_refuses_*)
        let at_end = k >= 2;
        let step = if at_end { None } else { Some(r.schedule.steps[k].clone()) };
        match &step {
            None => kani::assume(r.allow_incomplete),
            Some(ScheduleStep::Random) => kani::assume(false),
            Some(ScheduleStep::Task(t)) => kani::assume(usize::from(*t) < n || r.allow_incomplete),
        }
        let ans = r.next_task(&refs[..n], any_current(), kani::any());
        match step {
            None => assert!(ans.is_none() && r.steps == k),
            Some(ScheduleStep::Task(t)) => {
                if usize::from(t) < n {
                    assert!(ans == Some(t) && r.steps == k + 1);
                } else {
                    assert!(ans.is_none() && r.steps == k);
                }
            }
            _ => {}
        }
        assert!(r.steps_skipped == 0);
        kani::cover!(ans.is_some());
        kani::cover!(ans.is_none() && !at_end);
        std::mem::forget(r);
    }

    /// C01.replay.next_u64 [K]: a draw is served only at a Random marker, advancing the cursor by exactly one
    #[kani::proof]
    #[kani::unwind(6)]
    fn c01_replay_next_u64() {
        let mut r = sched2();
        let k = r.steps;
        kani::assume(k < 2 && r.schedule.steps[k] == ScheduleStep::Random);
        let before = r.data_source.verif_rng().clone();
        let v = r.next_u64();
        assert!(r.steps == k + 1);
        // the value is the data stream's next value (stream contract: C01.data.next_u64_is_stream)
        let mut twin = before;
        assert!(v == rand::RngCore::next_u64(&mut twin));
        kani::cover!(k == 1);
        std::mem::forget(r);
    }

    /// C01.replay.refuses_random_for_task [K, should_panic]: a decision requested at a Random marker is refused
    #[kani::proof]
    #[kani::unwind(6)]
    #[kani::should_panic]
    fn c01_replay_refuses_decision_at_random_marker() {
        let mut steps = Vec::with_capacity(2);
        steps.push(ScheduleStep::Random);
        let mut r = ReplayScheduler::new_from_schedule(Schedule { seed: 7, steps });
        r.allow_incomplete = kani::any();
        let store = new_store();
        let refs: [&Task; N] = [&store[0], &store[1], &store[2]];
        let _ = r.next_task(&refs[..2], None, false);
    }

    /// C01.replay.refuses_draw_at_task_step [K, should_panic]
    #[kani::proof]
    #[kani::unwind(6)]
    #[kani::should_panic]
    fn c01_replay_refuses_draw_at_task_step() {
        let mut steps = Vec::with_capacity(2);
        steps.push(ScheduleStep::Task(TaskId::from(0)));
        let mut r = ReplayScheduler::new_from_schedule(Schedule { seed: 7, steps });
        let _ = r.next_u64();
    }

    /// C13.budget.replay + C01.replay.reseeds [Kb seeds]: exactly one execution, whose data stream restarts at the recorded seed
    #[kani::proof]
    #[kani::unwind(6)]
    fn c01_replay_new_execution_once() {
        let seed = shuttle_engine::scheduler::data::random::verif_data_random::some_seed();
        let mut r = ReplayScheduler::new_from_schedule(Schedule { seed, steps: Vec::new() });
        let a = r.new_execution();
        assert!(a.is_some() && a.as_ref().unwrap().seed == seed);
        assert!(*r.data_source.verif_rng() == <rand_pcg::Pcg64Mcg as rand::SeedableRng>::seed_from_u64(seed));
        let b = r.new_execution();
        assert!(b.is_none());
        let c = r.new_execution();
        assert!(c.is_none());
        kani::cover!(true);
        std::mem::forget(a);
    }
}
