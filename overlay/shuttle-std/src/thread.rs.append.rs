#[cfg(kani)]
mod verif_thread {
    //! C05 / C02: the thread-level wrappers park(), Thread::unpark(), yield_now() around the Task state machine
    //! (whose own contracts are C05.task.*): which of them take a choice point, and that they hit the right task.
    use super::*;
    use shuttle_engine::runtime::execution::verif_exec::{
        new_store, run_in, set_task_park, state_with, task_park, task_state, use_store, yield_requested, SpecSched,
    };
    use shuttle_engine::runtime::task::{TaskId, TaskState};
    use shuttle_engine::verif_support::{fixed_random_state, stub_false, switches, verif_switch};
    use std::cell::RefCell;
    use std::rc::Rc;

    const BLOCKED: TaskState = TaskState::Blocked { allow_spurious_wakeups: false };
    const PARKED: TaskState = TaskState::Blocked { allow_spurious_wakeups: true };

    /// C05.thread.park [K]: with a pending token park() consumes it and returns without a choice point (the park state is
    /// observable by the task itself only: legal omission) and without blocking; without a token the task is blocked in
    /// park (spurious wake-ups permitted), asks to be deprioritised and reaches exactly one choice point. Tokens do not
    /// accumulate: afterwards there is none in either case.
    #[kani::proof]
    #[kani::solver(minisat)]
    #[kani::unwind(5)]
    #[kani::stub(shuttle_engine::runtime::thread::continuation::switch, verif_switch)]
    #[kani::stub(std::hash::RandomState::new, fixed_random_state)]
    #[kani::stub(shuttle_engine::backtrace_enabled, stub_false)]
    fn c05_thread_park() {
        let mut store = new_store();
        use_store(&mut store);
        let mut st = state_with([TaskState::Runnable, BLOCKED, PARKED], 0, Rc::new(RefCell::new(SpecSched::new())));
        let tok: bool = kani::any();
        set_task_park(&mut st, 0, tok, false);
        set_task_park(&mut st, 2, false, true);
        let ((), cell) = run_in(st, || park());
        if tok {
            assert!(switches() == 0);
            assert!(task_state(&cell, 0) == TaskState::Runnable && task_park(&cell, 0) == (false, false));
        } else {
            assert!(switches() == 1 && yield_requested(&cell));
            assert!(task_state(&cell, 0) == PARKED && task_park(&cell, 0) == (false, true));
        }
        // nobody else is touched
        assert!(task_state(&cell, 1) == BLOCKED && task_state(&cell, 2) == PARKED && task_park(&cell, 2) == (false, true));
        kani::cover!(tok);
        kani::cover!(!tok);
    }

    /// C05.thread.unpark [K]: unpark() of a parked task releases exactly that task after exactly one choice point and
    /// leaves no token behind; unpark() of a task that is not parked leaves a token (one, however often it is called)
    /// and does not change its state; no other task is touched.
    #[kani::proof]
    #[kani::solver(minisat)]
    #[kani::unwind(5)]
    #[kani::stub(shuttle_engine::runtime::thread::continuation::switch, verif_switch)]
    #[kani::stub(std::hash::RandomState::new, fixed_random_state)]
    #[kani::stub(shuttle_engine::backtrace_enabled, stub_false)]
    fn c05_thread_unpark() {
        let mut store = new_store();
        use_store(&mut store);
        let parked: bool = kani::any();
        let had_token: bool = kani::any();
        kani::assume(!(parked && had_token));
        let mut st = state_with(
            [TaskState::Runnable, if parked { PARKED } else { BLOCKED }, PARKED],
            0,
            Rc::new(RefCell::new(SpecSched::new())),
        );
        set_task_park(&mut st, 1, had_token, parked);
        set_task_park(&mut st, 2, false, true);
        let target = Thread { id: ThreadId { task_id: TaskId::from(1) }, name: None };
        let twice: bool = kani::any();
        let ((), cell) = run_in(st, || {
            target.unpark();
            if twice {
                target.unpark();
            }
        });
        assert!(switches() == if twice { 2 } else { 1 });
        if parked {
            assert!(task_state(&cell, 1) == TaskState::Runnable);
        } else {
            assert!(task_state(&cell, 1) == BLOCKED && task_park(&cell, 1).0);
        }
        assert!(task_state(&cell, 0) == TaskState::Runnable && task_park(&cell, 0) == (false, false));
        assert!(task_state(&cell, 2) == PARKED && task_park(&cell, 2) == (false, true));
        kani::cover!(parked && twice);
        kani::cover!(!parked && had_token);
        std::mem::forget(target);
    }

    /// C02.thread.yield_now [K]: yield_now() reaches exactly one choice point, with the yield request recorded, and the
    /// task stays runnable.
    #[kani::proof]
    #[kani::solver(minisat)]
    #[kani::unwind(5)]
    #[kani::stub(shuttle_engine::runtime::thread::continuation::switch, verif_switch)]
    #[kani::stub(std::hash::RandomState::new, fixed_random_state)]
    #[kani::stub(shuttle_engine::backtrace_enabled, stub_false)]
    fn c02_thread_yield_now() {
        let mut store = new_store();
        use_store(&mut store);
        let st = state_with([TaskState::Runnable, BLOCKED, BLOCKED], 0, Rc::new(RefCell::new(SpecSched::new())));
        let ((), cell) = run_in(st, || yield_now());
        assert!(switches() == 1 && yield_requested(&cell));
        assert!(task_state(&cell, 0) == TaskState::Runnable && task_state(&cell, 1) == BLOCKED);
        kani::cover!(true);
    }

    // ---- JoinHandle::join (C07: returns the closure's value, only after the thread has finished; C02: choice points) ----
    static mut RESULT: *const std::sync::Mutex<Option<Result<u8>>> = std::ptr::null();
    static mut SEEN_BLOCKED_AND_REGISTERED: bool = false;

    /// the environment at the blocking choice point of join(): checks that the joiner is blocked AND registered as the
    /// target's waiter (otherwise the target's exit would not wake it), then lets the target (task 1) finish the way
    /// thread_fn does: publish the value, become Finished, wake the registered waiter
    fn env_target_finishes() {
        ExecutionState::with(|s| {
            let me_blocked = s.get(TaskId::from(0)).blocked();
            let registered = s.get(TaskId::from(1)).verif_waiter() == Some(TaskId::from(0));
            unsafe {
                SEEN_BLOCKED_AND_REGISTERED = me_blocked && registered;
                *(*RESULT).lock().unwrap() = Some(Ok(7));
            }
            s.get_mut(TaskId::from(1)).verif_reset(TaskState::Finished, false);
            if let Some(w) = s.get_mut(TaskId::from(1)).take_waiter() {
                s.get_mut(w).unblock();
            }
        });
    }

    fn join_contract(finished: bool) {
        let mut store = new_store();
        use_store(&mut store);
        let st = state_with(
            [TaskState::Runnable, if finished { TaskState::Finished } else { TaskState::Runnable }, BLOCKED],
            0,
            Rc::new(RefCell::new(SpecSched::new())),
        );
        let result = std::sync::Arc::new(std::sync::Mutex::new(if finished { Some(Ok(7u8)) } else { None }));
        let keep = result.clone();
        unsafe {
            RESULT = &*keep;
            if !finished {
                shuttle_engine::verif_support::ENV = Some(env_target_finishes);
            }
        }
        let h = JoinHandle {
            task_id: TaskId::from(1),
            thread: Thread { id: ThreadId { task_id: TaskId::from(1) }, name: None },
            result,
        };
        let (r, cell) = run_in(st, || h.join());
        // the closure's value, exactly once (the slot is empty afterwards)
        match &r {
            Ok(v) => assert!(*v == 7),
            Err(_) => assert!(false),
        }
        assert!(keep.lock().unwrap().is_none());
        // exactly one choice point: before reading a finished thread's result, or at the point of blocking (the pre-block
        // point is omitted: blocking on a join commutes)
        assert!(switches() == 1);
        if !finished {
            assert!(unsafe { SEEN_BLOCKED_AND_REGISTERED });
        }
        assert!(task_state(&cell, 0) == TaskState::Runnable && task_state(&cell, 1) == TaskState::Finished);
        assert!(task_state(&cell, 2) == BLOCKED);
        kani::cover!(true);
        std::mem::forget(r);
        std::mem::forget(keep);
    }

    /// C07.thread.join_finished [Kb]
    #[kani::proof]
    #[kani::solver(minisat)]
    #[kani::unwind(5)]
    #[kani::stub(shuttle_engine::runtime::thread::continuation::switch, verif_switch)]
    #[kani::stub(std::hash::RandomState::new, fixed_random_state)]
    #[kani::stub(shuttle_engine::backtrace_enabled, stub_false)]
    fn c07_thread_join_finished() {
        join_contract(true);
    }

    /// C07.thread.join_blocks_until_finished [Kb]
    #[kani::proof]
    #[kani::solver(minisat)]
    #[kani::unwind(5)]
    #[kani::stub(shuttle_engine::runtime::thread::continuation::switch, verif_switch)]
    #[kani::stub(std::hash::RandomState::new, fixed_random_state)]
    #[kani::stub(shuttle_engine::backtrace_enabled, stub_false)]
    fn c07_thread_join_blocks_until_finished() {
        join_contract(false);
    }

    // ---- join() woken before the joinee has published (what a scoped thread's closure does to the owner of its scope) ----
    static mut EARLY_WAKE_SEEN_REBLOCKED: bool = false;

    /// environment: at join's FIRST choice point the last scoped closure returns and wakes the scope owner (me) although
    /// the joinee (task 1) has not published yet (its thread-local destructors are still running); at the SECOND choice
    /// point I must be blocked again and still registered, and then the joinee finishes as thread_fn does
    fn env_early_wake_then_finish() {
        if switches() == 1 {
            ExecutionState::with(|s| s.get_mut(TaskId::from(0)).unblock());
        } else {
            ExecutionState::with(|s| {
                let me_blocked = s.get(TaskId::from(0)).blocked();
                let registered = s.get(TaskId::from(1)).verif_waiter() == Some(TaskId::from(0));
                unsafe {
                    EARLY_WAKE_SEEN_REBLOCKED = me_blocked && registered;
                    *(*RESULT).lock().unwrap() = Some(Ok(7));
                }
                s.get_mut(TaskId::from(1)).verif_reset(TaskState::Finished, false);
                if let Some(w) = s.get_mut(TaskId::from(1)).take_waiter() {
                    s.get_mut(w).unblock();
                }
            });
        }
    }

    /// C07.thread.join_survives_early_wake [Kb]: join() returns the closure's value and only after it was published, ALSO
    /// when the joiner is made runnable before that (Scope::spawn's closure wakes the scope owner when the last scoped
    /// closure returns, i.e. before thread_fn has run the thread-local destructors and published): it must block again
    /// (still registered) instead of reading an empty slot.
    #[kani::proof]
    #[kani::solver(minisat)]
    #[kani::unwind(5)]
    #[kani::stub(shuttle_engine::runtime::thread::continuation::switch, verif_switch)]
    #[kani::stub(std::hash::RandomState::new, fixed_random_state)]
    #[kani::stub(shuttle_engine::backtrace_enabled, stub_false)]
    fn c07_thread_join_survives_early_wake() {
        let mut store = new_store();
        use_store(&mut store);
        let st = state_with([TaskState::Runnable, TaskState::Runnable, BLOCKED], 0, Rc::new(RefCell::new(SpecSched::new())));
        let result = std::sync::Arc::new(std::sync::Mutex::new(None));
        let keep = result.clone();
        unsafe {
            RESULT = &*keep;
            shuttle_engine::verif_support::ENV = Some(env_early_wake_then_finish);
        }
        let h = JoinHandle {
            task_id: TaskId::from(1),
            thread: Thread { id: ThreadId { task_id: TaskId::from(1) }, name: None },
            result,
        };
        let (r, cell) = run_in(st, || h.join());
        match &r {
            Ok(v) => assert!(*v == 7),
            Err(_) => assert!(false),
        }
        assert!(switches() == 2);
        assert!(unsafe { EARLY_WAKE_SEEN_REBLOCKED });
        assert!(keep.lock().unwrap().is_none());
        assert!(task_state(&cell, 0) == TaskState::Runnable && task_state(&cell, 1) == TaskState::Finished);
        kani::cover!(true);
        std::mem::forget(r);
        std::mem::forget(keep);
    }
}
