//! F8: a scoped thread wakes the scope owner at the end of its closure (num_running_threads reaches 0), BEFORE thread_fn has
//! run the thread-local destructors and published the result. If the owner is blocked in ScopedJoinHandle::join on that
//! thread and a thread-local destructor contains a scheduling point, the owner resumes inside join() early: join panics
//! with "target should have finished" in a correct program (C07: join returns the closure's value, and only after the
//! closure has returned and all of the thread's thread-local destructors have run).
use shuttle::thread;

struct Noisy;
impl Drop for Noisy {
    fn drop(&mut self) {
        // any visible operation: a destructor that uses synchronisation
        thread::yield_now();
    }
}

shuttle::thread_local! {
    static TL: Noisy = Noisy;
}

#[test]
fn scoped_join_waits_for_tls_destructors_and_result() {
    shuttle::check_dfs(
        || {
            let r = thread::scope(|s| {
                let h = s.spawn(|| {
                    TL.with(|_| ());
                    7u8
                });
                h.join().unwrap()
            });
            assert_eq!(r, 7);
        },
        None,
    );
}
