#[cfg(kani)]
mod verif_random {
    use super::*;
    use shuttle_engine::runtime::execution::verif_exec::{any_current, new_store, N};
    use shuttle_engine::scheduler::data::random::verif_data_random::some_seed;

    fn stub_env_var<K: AsRef<std::ffi::OsStr>>(_key: K) -> Result<String, std::env::VarError> {
        Err(std::env::VarError::NotPresent)
    }
    fn stub_seed_from_env(s: u64) -> u64 {
        s
    }

    /// C13.budget.random [K: all (iterations, max)]
    #[kani::proof]
    #[kani::unwind(6)]
    #[kani::stub(std::env::var, stub_env_var)]
    #[kani::stub(shuttle_engine::seed_from_env, stub_seed_from_env)]
    fn c13_budget_random() {
        let mut s = RandomScheduler::new_from_seed(1, kani::any());
        s.iterations = kani::any();
        let (it, mx) = (s.iterations, s.max_iterations);
        let r = s.new_execution();
        assert!(r.is_some() == (it < mx));
        assert!(s.iterations == if it < mx { it + 1 } else { it });
        // the guard holds the seed of the running iteration and is cleared when the budget is exhausted
        assert!(s.current_seed.inner == r.as_ref().map(|x| x.seed));
        kani::cover!(r.is_some());
        kani::cover!(r.is_none());
        s.current_seed.inner = None;
        std::mem::forget(r);
        std::mem::forget(s);
    }

    /// C10.random.iteration_reproducible [Kb seeds]: the seed reported for an iteration, given to new_from_seed(seed, 1),
    /// reproduces that iteration: same schedule seed, same scheduler rng, same data rng.
    #[kani::proof]
    #[kani::unwind(6)]
    #[kani::stub(std::env::var, stub_env_var)]
    #[kani::stub(shuttle_engine::seed_from_env, stub_seed_from_env)]
    fn c10_random_iteration_reproducible() {
        let mut a = RandomScheduler::new_from_seed(some_seed(), 3);
        // arbitrary earlier history: k executions, each drawing some data
        let k: usize = kani::any();
        kani::assume(k <= 1);
        let mut i = 0;
        while i < k {
            let x = a.new_execution();
            std::mem::forget(x);
            if kani::any() { let _ = a.next_u64(); }
            i += 1;
        }
        let sa = a.new_execution().unwrap();
        let mut b = RandomScheduler::new_from_seed(sa.seed, 1);
        let sb = b.new_execution().unwrap();
        assert!(sb.seed == sa.seed);
        assert!(a.rng == b.rng);
        assert!(*a.data_source.verif_rng() == *b.data_source.verif_rng());
        assert!(a.data_source.verif_next_seed() == b.data_source.verif_next_seed());
        assert!(b.new_execution().is_none());
        kani::cover!(k == 1);
        a.current_seed.inner = None;
        b.current_seed.inner = None;
        std::mem::forget(a);
        std::mem::forget(b);
    }

    /// C10.random.next_task_offered_and_history_free [Kb seeds, rand's rejection loop bounded by the unwind bound]:
    /// the answer is an offered task and depends only on (rng state, number offered) -- not on current / yield flag.
    #[kani::proof]
    #[kani::unwind(8)]
    #[kani::stub(std::env::var, stub_env_var)]
    #[kani::stub(shuttle_engine::seed_from_env, stub_seed_from_env)]
    fn c10_random_next_task() {
        let seed = some_seed();
        let mut a = RandomScheduler::new_from_seed(seed, 1);
        let mut b = RandomScheduler::new_from_seed(seed, 1);
        let store = new_store();
        let refs: [&Task; N] = [&store[0], &store[1], &store[2]];
        let n: usize = kani::any();
        kani::assume(n >= 1 && n <= N);
        let ra = a.next_task(&refs[..n], any_current(), kani::any());
        let rb = b.next_task(&refs[..n], any_current(), kani::any());
        assert!(ra.is_some() && usize::from(ra.unwrap()) < n);
        assert!(ra == rb && a.rng == b.rng);
        kani::cover!(n == 3);
        std::mem::forget(a);
        std::mem::forget(b);
    }
}
