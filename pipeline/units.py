"""Registry: property -> obligations. The committed expected-obligation list (guard 1 of DESIGN.md §2.4)."""

ENGINE = "shuttle-engine"
SCHED = "shuttle-schedulers"
STD = "shuttle-std"

CANARY_KANI = {"name": "canary.kani", "lane": "K", "crate": ENGINE, "harness": "verif_canary_must_fail"}


def K(name, harness, formula, functions, crate=ENGINE, tier="quick", features=None, **kw):
    d = {"name": name, "lane": "K", "harness": harness, "formula": formula, "functions": functions,
         "crate": crate, "tier": tier, "features": features}
    d.update(kw)
    return d


def Kb(name, harness, formula, functions, bound, crate=ENGINE, tier="quick", features=None, **kw):
    d = K(name, harness, formula, functions, crate, tier, features, **kw)
    d["lane"] = "Kb"
    d["bound"] = bound
    return d


SER = "shuttle-engine/src/scheduler/serialization.rs"

PROPS = {}

PROPS["C16"] = {
    "scope": "varint codec complete over all u64 and all byte strings the decoder can read (K); the real body of deserialize_schedule, for "
             "EVERY input, returns (every library precondition holds: no panic in the decoder) and equals spec_deserialize(text) = the "
             "mathematical decoding of the text with ALL whitespace removed: whitespace-insensitive; None exactly for not-hex / empty / "
             "wrong magic / out-of-range header / cut short (V, unbounded, under functional contracts for hex, bitvec and the varint reader)",
    "verus_units": ["decoder"],
    "kani": [
        K("C16.varint.write_is_enc", "c16_varint_write_is_enc",
          "forall x:u64. write_u64_varint(x) appends enc(x) (LEB128), |enc(x)| == space_needed(x) in 1..=10",
          [SER + "::varint::write_u64_varint", SER + "::varint::space_needed"]),
        K("C16.varint.read_inverts_write", "c16_varint_read_inverts_write",
          "forall x:u64, rest. read_u64_varint(enc(x) ++ rest) == Ok(x) consuming exactly |enc(x)| bytes",
          [SER + "::varint::read_u64_varint", SER + "::varint::write_u64_varint"]),
        K("C16.varint.read_total", "c16_varint_read_total",
          "forall bytes, |bytes| <= 11. read_u64_varint returns Ok/Err without panic or overflow, consumes <= 10 bytes; "
          "Ok(v) => v is the base-128 value of the consumed bytes and continuation bits are well formed",
          [SER + "::varint::read_u64_varint"]),
    ],
    "overlay_files": ["shuttle-engine/src/scheduler/serialization.rs.append.rs"],
    "assumptions": ["A-mem: a hex string decodes to fewer than usize::MAX/16 bytes",
                    "assumed functional contracts (lane V, decoder unit): whitespace stripping, hex::decode, the varint reader over a byte cursor, "
                    "BitSlice::get / get(range) / BitField::load are deterministic functions of their inputs with the documented failure "
                    "conditions (get: None exactly when out of range; load: 1..=usize::BITS bits; from_slice: <= usize::MAX/8 bytes)"],
    "not_decided": ["serialize_schedule and the round trip serialize -> deserialize for whole schedules: bitvec/hex/iterator code outside "
                    "Verus' subset; CBMC does not finish on it even for 8-character concrete inputs"],
}

PROPS["C15"] = {
    "scope": "",
    "verus_units": ["clock"],
    "kani": [],
    "kani_companions": [],
    "overlay_files": [],
    "assumptions": [],
    "not_decided": [],
}

# whole properties not claimed (reason); clause-level exclusions live in PROPS[..]["not_decided"]
NOT_APPLICABLE = {
    "C19": ("tokio-compatible primitives: shuttle-tokio-impl-inner links the real tokio crate; its mpsc / Notify / watch state machines are async fns "
            "driven by an executor over Arc<Mutex<..>> + Waker tables. No Kani harness reached a result within the time / memory caps (the "
            "BatchSemaphore-only harnesses of C18 already need 1-15 min each) and async/await bodies are outside Verus' subset. See DESIGN.md 9.3."),
}

TASK = "shuttle-engine/src/runtime/task/mod.rs"
TASK_OVERLAY = ["shuttle-engine/src/runtime/task/mod.rs.append.rs", "shuttle-engine/src/runtime/thread/continuation.rs.append.rs",
                "shuttle-engine/src/runtime/storage.rs.append.rs", "shuttle-engine/src/lib.rs.append.rs"]
A_BT = "stub: shuttle_engine::backtrace_enabled -> false (environment read; Backtrace::force_capture unsupported by Kani)"
A_DUMMY = "Task values are built by Task::verif_dummy (no coroutine: `continuation` holds None, `yielder` is null); fields read by the logic under contract are set as Task::new sets them"

TASK_SM = {
    "block": K("C03.task.block", "c03_task_block",
               "requires state != Finished; ensures state' == Blocked{spurious}, nothing else changes", [TASK + "::Task::block"]),
    "sleep": K("C03.task.sleep", "c03_task_sleep",
               "requires state != Finished; ensures state' == Sleeping, not spuriously wakeable, nothing else changes", [TASK + "::Task::sleep"]),
    "unblock": K("C03.task.unblock", "c03_task_unblock",
                 "requires state != Finished; ensures state' == Runnable, blocked_in_park' == false, token unchanged", [TASK + "::Task::unblock"]),
    "finish": K("C03.task.finish", "c03_task_finish",
                "requires state != Finished; ensures state' == Finished, nothing else changes", [TASK + "::Task::finish"]),
    "absorbing": K("C03.task.finished_absorbing", "c03_task_finished_absorbing",
                   "state == Finished ==> after any of wake/abort/detach/set_waiter/take_waiter/unpark: state' == Finished",
                   [TASK + "::Task::wake", TASK + "::Task::abort", TASK + "::Task::detach", TASK + "::Task::unpark"]),
    "detach": K("C03.task.detach", "c03_task_detach", "ensures detached', nothing else changes", [TASK + "::Task::detach"]),
    "suw": K("C17.task.sleep_unless_woken", "c17_task_sleep_unless_woken",
             "ensures woken' == false; state' == (if old(woken) then old(state) else Sleeping)", [TASK + "::Task::sleep_unless_woken"]),
    "wake": K("C17.task.wake", "c17_task_wake",
              "ensures woken'; state' == Runnable if old(state)==Sleeping else old(state) (a waker never releases a Blocked task)",
              [TASK + "::Task::wake"]),
    "nolost": K("C17.task.no_lost_wakeup", "c17_task_no_lost_wakeup",
                "for every state: wake; sleep_unless_woken leaves the task not Sleeping; a wake after going to sleep makes it Runnable",
                [TASK + "::Task::wake", TASK + "::Task::sleep_unless_woken"]),
    "abort": K("C17.task.abort", "c17_task_abort",
               "ensures finished => unchanged; otherwise same as wake (idempotent)", [TASK + "::Task::abort"]),
    "waiter": K("C07.task.waiter", "c07_task_waiter",
                "set_waiter(w) returns !finished and registers w only then; take_waiter returns it exactly once",
                [TASK + "::Task::set_waiter", TASK + "::Task::take_waiter"]),
    "park": K("C05.task.park", "c05_task_park",
              "requires inv_park, Runnable, !blocked_in_park; ensures token => consumed, returns false, no block; else Blocked{spurious=true}, blocked_in_park, returns true; inv_park'",
              [TASK + "::Task::park"]),
    "unpark": K("C05.task.unpark", "c05_task_unpark",
                "requires inv_park; ensures blocked_in_park => Runnable, no token left; else token' == true (no accumulation), state unchanged; inv_park'",
                [TASK + "::Task::unpark"]),
    "notcum": K("C05.task.unpark_not_cumulative", "c05_task_unpark_not_cumulative",
                "unpark; unpark; park (no block); park (blocks); unpark releases and leaves no token",
                [TASK + "::Task::park", TASK + "::Task::unpark"]),
    "spur": K("C05.task.spurious_wakeup_then_unpark", "c05_task_spurious_wakeup_then_unpark",
              "a spuriously woken parked task that later blocks elsewhere is not released by unpark; the token is stored instead",
              [TASK + "::Task::park", TASK + "::Task::unblock", TASK + "::Task::unpark"]),
}

PROPS["C03"] = {
    "scope": "task state machine transitions complete over all states (K)",
    "kani": [TASK_SM[k] for k in ("block", "sleep", "unblock", "finish", "absorbing", "detach", "wake")],
    "overlay_files": TASK_OVERLAY,
    "assumptions": [A_BT, A_DUMMY],
    "not_decided": [],
}
PROPS["C05"] = {
    "scope": "park/unpark token machine complete over all states (K)",
    # `unblock` (shared with C03) carries the clause "a pending unpark token survives being unblocked by another primitive"
    "kani": [TASK_SM[k] for k in ("park", "unpark", "notcum", "spur", "unblock", "block")],
    "overlay_files": TASK_OVERLAY,
    "assumptions": [A_BT, A_DUMMY],
    "not_decided": [],
}
PROPS["C17"] = {
    "scope": "wake/sleep_unless_woken/abort complete over all states (K)",
    "kani": [TASK_SM[k] for k in ("suw", "wake", "nolost", "abort")],
    "overlay_files": TASK_OVERLAY,
    "assumptions": [A_BT, A_DUMMY],
    "not_decided": [],
}
PROPS["C07"] = {
    "scope": "join waiter registration (K)",
    "kani": [TASK_SM["waiter"]],
    "overlay_files": TASK_OVERLAY,
    "assumptions": [A_BT, A_DUMMY],
    "not_decided": [],
}

DATA_R = "shuttle-engine/src/scheduler/data/random.rs"
DATA_F = "shuttle-engine/src/scheduler/data/fixed.rs"
BOUND_SEEDS = "seeds in {0, 1, 0x12345678, 2^64-1} (equivalence of two copies of rand_pcg seeding is beyond SAT; SMT2 back end crashes; provided trait methods cannot be stubbed)"
DATA = {
    "init": Kb("C10.data.initialize_reinitialize", "c10_data_initialize_reinitialize",
               "initialize(s0).rng == seed_from_u64(s0); first reinitialize returns s0 and rng' == seed_from_u64(s0)",
               [DATA_R + "::RandomDataSource::initialize", DATA_R + "::RandomDataSource::reinitialize"], BOUND_SEEDS),
    "chain": Kb("C10.data.reinitialize_chain", "c10_data_reinitialize_chain",
                "reinitialize (next_seed == None) returns s == rng.next_u64() and rng' == seed_from_u64(s)",
                [DATA_R + "::RandomDataSource::reinitialize"], BOUND_SEEDS),
    "next": K("C01.data.next_u64_is_stream", "c01_data_next_u64_is_stream",
              "forall rng state. next_u64 == rng.next_u64(), next_seed unchanged", [DATA_R + "::RandomDataSource::next_u64"]),
    "fixed": Kb("C09.data.fixed_same_stream", "c09_data_fixed_same_stream",
                "any inner state. FixedDataSource::reinitialize returns seed and restarts the stream at seed_from_u64(seed)",
                [DATA_F + "::FixedDataSource::reinitialize"], BOUND_SEEDS),
}
DATA_OVERLAY = ["shuttle-engine/src/scheduler/data/random.rs.append.rs", "shuttle-engine/src/scheduler/data/fixed.rs.append.rs"]
PROPS["C09"] = {
    "scope": "DfsScheduler::{has_more_choices,new_execution,next_task} proved against the step relation dfs_step with its invariant, the code's own "
             "asserts dead, the termination test exact (V, unbounded); ENUMERATION THEOREM over dfs_step (L): the next execution's schedule is "
             "strictly to the right of the previous one (never repeated), is the LEFTMOST complete schedule to its right (none skipped), and when "
             "no level has a sibling left nothing lies to the right (search complete); fixed data stream (Kb)",
    "verus_units": ["dfs"],
    "kani": [DATA["fixed"]],
    "kani_companions": [],
    "overlay_files": DATA_OVERLAY,
    "assumptions": ["A-det: the ids offered after a choice prefix are a function of the prefix (uninterpreted `tree`), distinct (C08) and the "
                    "program has finite depth (`bounded(depth)`)", "A-wrap: iterations, steps < usize::MAX (stated as requires)",
                    "the composition `runtime calls next_task with tree(path) at every decision of an execution` is the step relation `run`; it is stated, "
                    "not extracted (Execution::run needs coroutines)"],
    "not_decided": ["ContinueAfter(n) truncation: follows by instantiating `tree` with the tree cut at depth n (not mechanised separately)"],
}
PROPS["C10"] = {
    "scope": "data-source seeding chain complete over all seeds (K)",
    "kani": [DATA["init"], DATA["chain"], DATA["next"]],
    "overlay_files": DATA_OVERLAY,
    "assumptions": ["rand_pcg::Pcg64Mcg::seed_from_u64 / next_u64 are the reference for `same stream` (executed symbolically, not specified)"],
    "not_decided": [],
}

EXE = "shuttle-engine/src/runtime/execution.rs"
EXE_OVERLAY = TASK_OVERLAY + ["shuttle-engine/src/runtime/execution.rs.append.rs", "shuttle-engine/src/runtime/execution.rs.rules",
                              "shuttle-engine/src/runtime/failure.rs.append.rs"]
A_TLS = "A-tls: the three lazily initialised thread_local!s of execution.rs are replaced by static twins under cfg(kani)"
A_HEAP = "ExecutionState.tasks is built with SmallVec::from_vec (heap mode); the inline [Task;16] mode is not exercised"
EXEC = {
    "schedule": Kb("C08.exec.schedule", "c08_exec_schedule_2live",
                   "for every combination of task states/detached flags, current task, yield flag: next_task' == Finished <=> "
                   "(no Runnable task) or (no unfinished attached task and all Runnable detached), scheduler not called then; "
                   "otherwise scheduler called exactly once with the ascending ids of Runnable+spuriously-wakeable tasks, "
                   "current == current_task.id(), is_yielding == old(has_yielded), flag cleared; None => Stopped; "
                   "chosen blocked task unblocked, all other tasks unchanged",
                   [EXE + "::ExecutionState::schedule"], "2 unfinished tasks, every combination of their states", heavy=True, timeout_s=1500),
    "schedule3": Kb("C08.exec.schedule_3live", "c08_exec_schedule_3live", "same contract as C08.exec.schedule",
                    [EXE + "::ExecutionState::schedule"], "3 unfinished tasks", tier="thorough", heavy=True, timeout_s=5400),
    "schedule_fin": Kb("C08.exec.schedule_with_finished", "c08_exec_schedule_with_finished", "same contract as C08.exec.schedule",
                       [EXE + "::ExecutionState::schedule"], "3 tasks, task 0 finished (non-contiguous live ids)", tier="thorough", heavy=True, timeout_s=3600),
    "once": K("C08.exec.schedule_once", "c08_exec_schedule_once",
              "next_task != None ==> schedule() is a no-op (scheduler consulted at most once per decision)",
              [EXE + "::ExecutionState::schedule"], heavy=True, timeout_s=1800, tier="thorough"),
    "bound": K("C13.exec.step_bound", "c13_exec_step_bound",
               "steps = len(schedule) - steps_reset_at; FailAfter(n): steps >= n <=> Err(StepBoundExceeded), no scheduler call; "
               "ContinueAfter(n): steps >= n <=> Ok and next_task' == Stopped; otherwise the decision proceeds",
               [EXE + "::ExecutionState::schedule", EXE + "::ExecutionState::is_step_bound_exceeded"], heavy=True, timeout_s=1800),
    "silent": K("C13.exec.step_error_persist", "c13_exec_step_error_is_silent_only_for_continue_after",
                "StepError::persist_failure skips exactly StepBoundExceeded under ContinueAfter", [EXE + "::StepError::persist_failure"]),
    "advance": K("C01.exec.advance_records", "c01_exec_advance_records",
                 "requires next_task != None; ensures current_task' == old(next_task), next_task' == None, recorded schedule' == "
                 "old ++ [Task(t)] iff old(next_task) == Some(t) (also when t is the task already running)",
                 [EXE + "::ExecutionState::advance_to_next_task"]),
    "u64": K("C01.exec.next_u64", "c01_exec_next_u64",
             "schedule' == old ++ [Random], appended before the scheduler is asked; result == scheduler.next_u64(), called once",
             [EXE + "::ExecutionState::next_u64"]),
    "fresh": K("C14.exec.new_is_fresh", "c14_exec_new_is_fresh",
               "ExecutionState::new: no tasks, empty live set, zero counters, no current/next task, empty storage; "
               "CurrentSchedule::init replaces the recorded schedule", [EXE + "::ExecutionState::new", EXE + "::CurrentSchedule::init"]),
    "live": Kb("C03.exec.live_tasks", "c03_exec_live_tasks",
               "add_task/finish_task preserve: live_tasks == ascending ids of unfinished tasks; new id == tasks.len()",
               [EXE + "::ExecutionState::add_task", EXE + "::ExecutionState::finish_task"], "<= 3 tasks", tier="thorough", heavy=True, timeout_s=3600),
    "trunc": Kb("C02.exec.exit_truncates", "c02_exec_exit_truncates",
                "exit_current_truncates_execution() <=> current is task 0, or current is attached and the only unfinished attached "
                "task while an unfinished detached task exists", [EXE + "::ExecutionState::exit_current_truncates_execution"], "<= 3 tasks"),
    "yield": K("C08.exec.request_yield", "c08_exec_request_yield", "request_yield sets has_yielded and nothing else",
               [EXE + "::ExecutionState::request_yield"]),
    "persist": K("C12.failure.persist_independent_of_history", "c12_failure_persist_independent_of_history",
                 "for every value an earlier run can have left in SCHEDULE_PERSISTED_AT: persistence None => nothing emitted; "
                 "Print => current schedule emitted exactly once per failure", ["shuttle-engine/src/runtime/failure.rs::persist_failure"]),
}
# schedule3 (3 live tasks: 18 min, 42 GB) and live (out of memory next to other harnesses) are NOT registered: a thorough run must
# terminate within the memory of this machine
for k in ("schedule", "schedule_fin"):
    PROPS["C03"]["kani"].append(EXEC[k])
PROPS["C03"]["overlay_files"] = EXE_OVERLAY
PROPS["C03"]["assumptions"] += [A_TLS, A_HEAP]
PROPS["C08"] = {
    "scope": "schedule() contract (Kb <= 3 tasks), at-most-once and request_yield (K)",
    "kani": [EXEC["schedule"], EXEC["schedule_fin"], EXEC["once"], EXEC["yield"]],
    "overlay_files": EXE_OVERLAY, "assumptions": [A_BT, A_DUMMY, A_TLS, A_HEAP], "not_decided": [],
}
PROPS["C13"] = {
    "scope": "step-bound arithmetic and its three outcomes complete over all bounds (K)",
    "kani": [EXEC["bound"], EXEC["silent"], EXEC["advance"], EXEC["u64"]],
    "overlay_files": EXE_OVERLAY, "assumptions": [A_DUMMY, A_TLS, A_HEAP], "not_decided": [],
}
PROPS["C01"] = {
    "scope": "recording of decisions and draws (K)",
    "kani": [EXEC["advance"], EXEC["u64"], DATA["next"]],
    "overlay_files": EXE_OVERLAY + DATA_OVERLAY, "assumptions": [A_DUMMY, A_TLS, A_HEAP], "not_decided": [],
}
PROPS["C14"] = {
    "scope": "fresh initial state (K)",
    "kani": [EXEC["fresh"]],
    "overlay_files": EXE_OVERLAY, "assumptions": [A_TLS], "not_decided": [],
}
PROPS["C02"] = {
    "scope": "exit-truncation predicate (Kb)",
    "kani": [EXEC["trunc"], EXEC["once"]],
    "overlay_files": EXE_OVERLAY, "assumptions": [A_DUMMY, A_TLS, A_HEAP], "not_decided": [],
}
PROPS["C12"] = {
    "scope": "persist_failure emission independent of earlier runs (K)",
    "kani": [EXEC["silent"]],
    "overlay_files": EXE_OVERLAY, "assumptions": ["stub: serialize_schedule replaced by a call counter (bitvec/hex are beyond CBMC)"], "not_decided": [],
}

REPLAY = "shuttle-schedulers/src/replay.rs"
RANDOM = "shuttle-schedulers/src/random.rs"
UND = "shuttle-schedulers/src/uncontrolled_nondeterminism.rs"
SCHED_OVERLAY = ["shuttle-schedulers/src/replay.rs.append.rs", "shuttle-schedulers/src/random.rs.append.rs",
                 "shuttle-schedulers/src/round_robin.rs.append.rs", "shuttle-schedulers/src/uncontrolled_nondeterminism.rs.append.rs",
                 "shuttle-schedulers/src/annotation.rs.append.rs", "shuttle-engine/src/scheduler/metrics.rs.append.rs",
                 "shuttle-engine/src/runtime/runner.rs.append.rs"]
A_ENV = "stubs: std::env::var -> NotPresent, shuttle_engine::seed_from_env -> identity (environment reads are unsupported foreign calls)"
SCH = {
    "box": K("C08.wrap.box_dyn", "c08_wrap_box_dyn_transparent", "Box<dyn Scheduler + Send> forwards next_task/next_u64/new_execution once, unchanged",
             ["shuttle-engine/src/scheduler/mod.rs::impl Scheduler for Box<dyn Scheduler + Send>"], tier="thorough"),
    "metrics": K("C08.wrap.metrics", "c08_wrap_metrics_transparent", "MetricsScheduler is transparent for every metric history",
                 ["shuttle-engine/src/scheduler/metrics.rs::MetricsScheduler::{next_task,next_u64,new_execution}"], tier="thorough"),
    "portfolio": K("C08.wrap.portfolio", "c08_wrap_portfolio_transparent", "PortfolioStoppableScheduler is transparent while the stop flag is clear",
                   ["shuttle-engine/src/runtime/runner.rs::PortfolioStoppableScheduler"]),
    "portfolio_stop": K("C08.wrap.portfolio_stops", "c08_wrap_portfolio_stops", "stop flag set => next_task and new_execution return None without consulting the inner scheduler",
                        ["shuttle-engine/src/runtime/runner.rs::PortfolioStoppableScheduler"]),
    "annotation": K("C08.wrap.annotation", "c08_wrap_annotation_transparent", "AnnotationScheduler is transparent (feature annotation off)",
                    ["shuttle-schedulers/src/annotation.rs::AnnotationScheduler"], crate=SCHED),
    "und_alt": K("C01.und.new_execution_alternates", "c01_und_new_execution_alternates",
                 "new_execution alternates recording/checking; the inner scheduler starts a new execution only when a recording starts",
                 [UND + "::new_execution"], crate=SCHED),
    "und_reject": K("C01.und.rejects_different_offer", "c01_und_check_rejects_different_offer",
                    "checking mode: a different offered set is rejected by a panic", [UND + "::next_task"], crate=SCHED, should_panic=True),
    "rr_budget": K("C13.budget.round_robin", "c13_budget_round_robin", "forall (iterations,max): new_execution is Some <=> iterations < max; iterations' == iterations + [Some]",
                   ["shuttle-schedulers/src/round_robin.rs::new_execution"], crate=SCHED),
    "rr_next": K("C08.rr.next_task", "c08_rr_next_task_in_offered", "answer is the offered task after `current` (wrapping); always offered",
                 ["shuttle-schedulers/src/round_robin.rs::next_task"], crate=SCHED),
    "replay_next": K("C01.replay.next_task", "c01_replay_next_task",
                     "no target clock: Some(t), cursor+1 <=> steps[cursor]==Task(t) and t offered; not offered => None, cursor unchanged (allow_incomplete); end of schedule => None",
                     [REPLAY + "::next_task"], crate=SCHED),
    "replay_u64": K("C01.replay.next_u64", "c01_replay_next_u64", "at a Random marker: cursor+1 and the value is the data stream's next value",
                    [REPLAY + "::next_u64"], crate=SCHED),
    "replay_ref1": K("C01.replay.refuses_decision_at_random_marker", "c01_replay_refuses_decision_at_random_marker",
                     "a decision requested where the schedule has a Random marker is refused (panic)", [REPLAY + "::next_task"], crate=SCHED, should_panic=True),
    "replay_ref2": K("C01.replay.refuses_draw_at_task_step", "c01_replay_refuses_draw_at_task_step",
                     "a draw requested where the schedule has a task step is refused (panic)", [REPLAY + "::next_u64"], crate=SCHED, should_panic=True),
    "replay_once": Kb("C01.replay.new_execution_once", "c01_replay_new_execution_once",
                      "exactly one execution; its data stream restarts at seed_from_u64(schedule.seed)", [REPLAY + "::new_execution"], BOUND_SEEDS, crate=SCHED),
    "rand_budget": K("C13.budget.random", "c13_budget_random",
                     "forall (iterations,max): Some <=> iterations < max; CurrentSeedDropGuard holds the running iteration's seed, cleared at exhaustion",
                     [RANDOM + "::new_execution"], crate=SCHED),
    "rand_repro": Kb("C10.random.iteration_reproducible", "c10_random_iteration_reproducible",
                     "after any history, new_execution's seed s reproduces the iteration: new_from_seed(s,1).new_execution() has equal seed, scheduler rng and data rng; then None",
                     [RANDOM + "::new_execution", RANDOM + "::new_from_seed"], BOUND_SEEDS + "; history <= 1 earlier execution", crate=SCHED),
    "rand_next": Kb("C10.random.next_task", "c10_random_next_task",
                    "answer is offered; depends only on (rng, number offered): equal for different current / yield flag",
                    [RANDOM + "::next_task"], BOUND_SEEDS + "; <= 3 offered; rand's rejection loop within the unwind bound", crate=SCHED, timeout_s=1200),
}
PROPS["C08"]["kani"] += [SCH[k] for k in ("box", "metrics", "portfolio", "portfolio_stop", "annotation", "rr_next")]
PROPS["C08"]["overlay_files"] += SCHED_OVERLAY
PROPS["C01"]["kani"] += [SCH[k] for k in ("replay_next", "replay_u64", "replay_ref1", "replay_ref2", "replay_once", "und_alt", "und_reject")]
PROPS["C01"]["overlay_files"] += SCHED_OVERLAY
PROPS["C13"]["kani"] += [SCH["rr_budget"], SCH["rand_budget"], SCH["replay_once"]]
PROPS["C13"]["overlay_files"] += SCHED_OVERLAY
PROPS["C13"]["assumptions"] += [A_ENV]
PROPS["C10"]["kani"] += [SCH["rand_budget"], SCH["rand_repro"], SCH["rand_next"]]
PROPS["C10"]["overlay_files"] += SCHED_OVERLAY
PROPS["C10"]["assumptions"] += [A_ENV]
PROPS["C12"]["kani"] += [SCH["portfolio_stop"]]

# ---------------- C18 BatchSemaphore ----------------
SEM = "shuttle-engine/src/future/batch_semaphore.rs"
SEM_OVERLAY = EXE_OVERLAY + ["shuttle-engine/src/future/batch_semaphore.rs.append.rs"]
A_SWITCH = "stub: thread::switch() -> verif_switch (counts choice points, runs the environment hook); the scheduler is not consulted"
B_SEM = "<= 2 queued waiters, permits <= 4, 3 tasks"


def KS(name, harness, formula, fns, tier="quick", **kw):
    return Kb(name, harness, formula, [SEM + "::" + f for f in fns], B_SEM, tier=tier, heavy=True, timeout_s=kw.pop("timeout_s", 1500), **kw)


SEMH = [
    KS("C18.permits.acquire_release", "c18_permits_acquire_release",
       "inv_PA: sum of batches == available; acquire(n) Ok <=> n == 0 or n <= available, removes exactly n; Err leaves state unchanged; release(n) adds n",
       ["PermitsAvailable::acquire", "PermitsAvailable::release"]),
    KS("C18.sem.try_acquire_fair", "c18_sem_try_acquire_fair",
       "Closed if closed; queue non-empty => NoPermits (no overtaking); else Ok <=> n <= available; Ok removes exactly n; Err changes nothing; one choice point",
       ["BatchSemaphore::try_acquire", "BatchSemaphoreState::acquire_permits"]),
    KS("C18.sem.try_acquire_unfair", "c18_sem_try_acquire_unfair", "as fair, but a queued waiter does not block the attempt",
       ["BatchSemaphore::try_acquire", "BatchSemaphore::reblock_if_unfair"], tier="thorough", timeout_s=3600),
    KS("C18.sem.release_fair", "c18_sem_release_fair",
       "fair release: hand-out strictly from the head, stops at the first waiter that does not fit; granted waiter dequeued, has_permits, task runnable; available' + granted == available + released",
       ["BatchSemaphore::release", "BatchSemaphoreState::unblock_waiters_from_front"]),
    KS("C18.sem.release_unfair", "c18_sem_release_unfair", "unfair release: exactly the waiters that fit become runnable; none granted or dequeued",
       ["BatchSemaphore::release"]),
    KS("C18.sem.close", "c18_sem_close", "close dequeues and wakes every waiter, grants nothing; later try_acquire == Closed; idempotent",
       ["BatchSemaphore::close", "BatchSemaphore::close_no_scheduling_point"]),
    KS("C18.sem.remove_waiter_fair_head", "c18_sem_remove_waiter_fair_head",
       "dropping the queued head of a fair semaphore removes exactly it and hands the permits to the next waiter if they fit (nobody stranded)",
       ["BatchSemaphore::remove_waiter"]),
    KS("C18.sem.remove_waiter_fair_second", "c18_sem_remove_waiter_fair_second", "removing a non-head waiter changes nothing else",
       ["BatchSemaphore::remove_waiter"], tier="thorough"),
    KS("C18.acquire.poll_granted_then_closed", "c18_acquire_poll_granted_then_closed",
       "a waiter that was granted permits completes with Ok on its next poll even if the semaphore was closed since; one choice point on a first poll",
       ["Acquire::poll"]),
    KS("C18.acquire.poll_granted_open", "c18_acquire_poll_granted_open", "same, semaphore still open", ["Acquire::poll"], tier="thorough"),
    KS("C18.acquire.poll_ungranted_closed", "c18_acquire_poll_ungranted_closed", "an ungranted waiter on a closed semaphore completes with Err", ["Acquire::poll"], tier="thorough"),
    KS("C18.acquire.poll_first_fair_blocks", "c18_acquire_poll_first_fair_blocks",
       "first poll, fair, 0 permits, request 1, empty queue (one concrete configuration): Pending, enqueued at the tail with the POLLER's identity "
       "and waker, permits untouched; exactly one choice point (joining an ordered queue does not commute)", ["Acquire::poll"]),
    KS("C18.acquire.poll_first_fair_succeeds", "c18_acquire_poll_first_fair_succeeds",
       "first poll, fair, 1 permit, request 1: Ready(Ok), exactly 1 permit removed, not queued; exactly one choice point", ["Acquire::poll"]),
    KS("C18.acquire.poll_first_unfair_blocks", "c18_acquire_poll_first_unfair_blocks",
       "first poll, unfair, 1 permit, request 2: Pending and enqueued; the choice point is omitted (blocking on an unordered set commutes)",
       ["Acquire::poll"], tier="thorough"),
    KS("C18.acquire.poll_first_unfair_succeeds", "c18_acquire_poll_first_unfair_succeeds",
       "first poll, unfair, 2 permits, request 1: Ready(Ok), exactly 1 removed; one choice point", ["Acquire::poll"], tier="thorough"),
    KS("C18.acquire.drop_granted", "c18_acquire_drop_granted", "dropping a granted, uncompleted acquisition returns its permits", ["Acquire::drop"]),
    KS("C18.acquire.drop_queued", "c18_acquire_drop_queued", "dropping a queued acquisition removes it from the queue, permits unchanged", ["Acquire::drop"]),
    KS("C18.acquire.drop_completed", "c18_acquire_drop_completed", "dropping a completed acquisition changes nothing", ["Acquire::drop"], tier="thorough"),
]
PROPS["C18"] = {
    "scope": "permit conservation, FIFO hand-out, no overtaking as lemmas over the contract step relation (L); the contracts themselves on the "
             "real PermitsAvailable / BatchSemaphore / Acquire code (Kb, <= 2 waiters)",
    "verus_units": ["semlemmas"],
    "kani": SEMH,
    "overlay_files": SEM_OVERLAY,
    "assumptions": [A_BT, A_DUMMY, A_TLS, A_HEAP, A_SWITCH,
                    "lane L mirrors the Kb contracts by inspection (both texts are in the evidence samples)"],
    "not_decided": ["unbounded queue lengths on the real code (lane Kb is bounded; lane L is about the contracts)",
                    "first poll of a fresh acquisition: only four concrete configurations (a symbolic configuration exhausts memory)"],
}
PROPS["C02"]["kani"] += [x for x in SEMH if x["harness"] in ("c18_sem_try_acquire_fair", "c18_acquire_poll_granted_then_closed")]
PROPS["C02"]["kani"].append(
    KS("C02.acquire.first_poll_fair_blocking_is_choice_point", "c02_acquire_first_poll_fair_blocking",
       "a first poll that will block on a STRICTLY FAIR semaphore takes exactly one choice point BEFORE it joins the queue, also when the queue "
       "is still empty (at the choice point the queue is observed empty): joining an ordered queue does not commute with another task joining it",
       ["Acquire::poll"]))
PROPS["C02"]["overlay_files"] = SEM_OVERLAY
PROPS["C02"]["kani"].append(EXEC["yield"])

# ---------------- shuttle-std: C04 / C05 / C06 ----------------
STD_OVERLAY = SEM_OVERLAY + ["shuttle-std/src/thread.rs.append.rs", "shuttle-std/src/sync/mutex.rs.append.rs", "shuttle-std/src/sync/rwlock.rs.append.rs",
                             "shuttle-std/src/sync/atomic/int.rs.append.rs", "shuttle-std/src/sync/atomic/bool.rs.append.rs", "shuttle-std/src/sync/atomic/ptr.rs.append.rs", "shuttle-std/src/sync/mpsc.rs.append.rs",
                             "shuttle-std/src/sync/condvar.rs.append.rs", "shuttle-std/src/sync/barrier.rs.append.rs"]
MUTEX = "shuttle-std/src/sync/mutex.rs"
RWLOCK = "shuttle-std/src/sync/rwlock.rs"
ATOMIC = "shuttle-std/src/sync/atomic"
MPSC = "shuttle-std/src/sync/mpsc.rs"
CONDVAR = "shuttle-std/src/sync/condvar.rs"
A_TASKSET = "assumed contract: TaskSet::{insert,remove,contains,is_empty} replaced by a set model (the BitVec inside is out of CBMC's reach)"


def KSTD(lane_fn, name, harness, formula, fns, bound=None, tier="quick", **kw):
    if lane_fn is K:
        return K(name, harness, formula, fns, crate=STD, tier=tier, heavy=True, timeout_s=kw.pop("timeout_s", 1500), **kw)
    return Kb(name, harness, formula, fns, bound, crate=STD, tier=tier, heavy=True, timeout_s=kw.pop("timeout_s", 1500), **kw)


ATOM = [
    KSTD(K, "C04.atomic.u8_agrees_with_std", "c04_atomic_u8_agrees_with_std",
         "forall start value, operands, operation in {load,store,swap,compare_exchange,fetch_add,sub,and,nand,or,xor,max,min,fetch_update}: "
         "result and final value equal std::sync::atomic::AtomicU8's; exactly one choice point before the effect",
         [ATOMIC + "/mod.rs::Atomic::{load,store,swap,fetch_update}", ATOMIC + "/int.rs::AtomicU8::*"]),
    KSTD(K, "C04.atomic.i16_agrees_with_std", "c04_atomic_i16_agrees_with_std", "same, AtomicI16 (signed max/min)",
         [ATOMIC + "/int.rs::AtomicI16::*"], tier="thorough"),
    KSTD(K, "C04.atomic.u32_agrees_with_std", "c04_atomic_u32_agrees_with_std", "same, AtomicU32", [ATOMIC + "/int.rs::AtomicU32::*"], tier="thorough"),
    KSTD(K, "C04.atomic.i64_agrees_with_std", "c04_atomic_i64_agrees_with_std", "same, AtomicI64", [ATOMIC + "/int.rs::AtomicI64::*"], tier="thorough"),
    KSTD(K, "C04.atomic.usize_agrees_with_std", "c04_atomic_usize_agrees_with_std", "same, AtomicUsize", [ATOMIC + "/int.rs::AtomicUsize::*"], tier="thorough"),
    KSTD(K, "C04.atomic.bool_agrees_with_std", "c04_atomic_bool_agrees_with_std",
         "forall start value, operands, operation in {load,store,swap,compare_exchange,compare_exchange_weak (against std's strong version),"
         "fetch_and,nand,or,xor,fetch_update}: result and final value equal std::sync::atomic::AtomicBool's; exactly one choice point",
         [ATOMIC + "/bool.rs::AtomicBool::*"]),
    KSTD(Kb, "C04.atomic.ptr_agrees_with_std", "c04_atomic_ptr_agrees_with_std",
         "AtomicPtr: load, store, swap, compare_exchange(_weak), fetch_update agree with std::sync::atomic::AtomicPtr in result and final value; "
         "exactly one choice point", [ATOMIC + "/ptr.rs::AtomicPtr::*"],
         "pointer operands range over null and three distinct addresses", tier="thorough"),
]
LOCKS = [
    KSTD(K, "C04.mutex.try_lock_free", "c04_mutex_try_lock_free",
         "inv_M (holder.is_some() <=> no permit): try_lock on a free mutex is Ok; then holder == me, 0 permits; one choice point",
         [MUTEX + "::Mutex::try_lock"]),
    KSTD(K, "C04.mutex.try_lock_held", "c04_mutex_try_lock_held",
         "try_lock on a mutex held by another task is WouldBlock and leaves holder and permits unchanged; one choice point",
         [MUTEX + "::Mutex::try_lock"], tier="thorough"),
    KSTD(K, "C04.mutex.unlock_wakes_waiter", "c04_mutex_unlock_wakes_waiter",
         "dropping the guard returns the permit, clears the holder, frees the inner std lock, makes the queued waiter runnable; one choice point before the effect",
         [MUTEX + "::MutexGuard::drop"]),
    KSTD(K, "C04.mutex.unlock_no_waiter", "c04_mutex_unlock_no_waiter", "same, nobody queued", [MUTEX + "::MutexGuard::drop"], tier="thorough"),
    KSTD(K, "C04.mutex.lock_uncontended", "c04_mutex_lock_uncontended",
         "lock() on a free mutex returns with holder == me after exactly one choice point; the inner std lock is held by the guard",
         [MUTEX + "::Mutex::lock"]),
    KSTD(K, "C04.rwlock.try_read_reentrant", "c04_rwlock_try_read_reentrant",
         "a re-entrant try_read fails AND consumes no permit (the lock is left unchanged)", [RWLOCK + "::RwLock::try_lock"]),
    KSTD(K, "C04.rwlock.try_read_free_or_other", "c04_rwlock_try_read_free_or_other",
         "try_read succeeds when free or read-held by others: one permit taken, me added to the readers (inv_RW)", [RWLOCK + "::RwLock::try_lock"]),
    KSTD(K, "C04.rwlock.try_read_while_written", "c04_rwlock_try_read_while_written",
         "try_read fails while write-held; nothing changes", [RWLOCK + "::RwLock::try_lock"]),
    KSTD(K, "C04.rwlock.try_write", "c04_rwlock_try_write",
         "try_write succeeds exactly when the lock is free (all MAX_READS permits), else leaves it unchanged", [RWLOCK + "::RwLock::try_lock"], tier="thorough"),
]
PROPS["C04"] = {
    "scope": "atomics: every operation agrees with std for all operand values, one choice point (K complete); Mutex/RwLock segments "
             "against inv_M / inv_RW on the real semaphore (K over all holder shapes with <= 2 other tasks)",
    "kani": [ATOM[0]] + LOCKS + ATOM[1:],
    "overlay_files": STD_OVERLAY,
    "assumptions": [A_BT, A_DUMMY, A_TLS, A_HEAP, A_SWITCH, A_TASKSET,
                    "atomics: Ordering::SeqCst only (other orderings are treated identically after a one-time warning)"],
    "not_decided": ["`for all programs at most one holder` as a trace property: follows from inv_M / inv_RW being preserved by every segment; "
                    "the blocking paths of lock()/read()/write() (queued, woken by release) are covered through C18 only",
                    "poisoning after a panicking holder (needs unwinding through coroutines)", "128-bit atomics (instances of the same four primitives)"],
}

B_CH = "<= 2 messages, <= 1 waiting sender, <= 1 waiting receiver; bound in {None, 0, 1}"
MPSCH = [
    KSTD(K, "C06.mpsc.must_block_predicates", "c06_must_block_predicates",
         "sender_must_block <=> full or a sender is queued or (rendezvous and no receiver waiting); receiver_must_block <=> empty or a receiver is queued",
         [MPSC + "::Channel::sender_must_block", MPSC + "::Channel::receiver_must_block"]),
    KSTD(Kb, "C06.mpsc.try_send_bounded1", "c06_try_send_bounded1",
         "try_send: Disconnected if no receiver; Full exactly when a blocking send would wait (full, or a sender already queued: no overtaking); else "
         "appended at the tail, capacity respected, waiting receiver released; Err leaves the channel unchanged; one choice point",
         [MPSC + "::Channel::send_internal"], B_CH),
    KSTD(Kb, "C06.mpsc.try_send_rendezvous", "c06_try_send_rendezvous", "same, rendezvous: hands off only to a waiting receiver",
         [MPSC + "::Channel::send_internal"], B_CH, tier="thorough"),
    KSTD(Kb, "C06.mpsc.try_send_unbounded", "c06_try_send_unbounded", "same, unbounded: never Full", [MPSC + "::Channel::send_internal"], B_CH, tier="thorough"),
]
_ENDS = (("sender_drop", "<Sender as Drop>::drop"), ("sync_sender_drop", "<SyncSender as Drop>::drop"), ("receiver_drop", "<Receiver as Drop>::drop"))
DROP_C02 = [
    KSTD(Kb, "C02.mpsc.%s_is_choice_point" % n, "c02_mpsc_%s" % n,
         "dropping the LAST endpoint of its kind (the peer then observes Disconnected instead of Empty/Full: does not commute): exactly one choice "
         "point, taken BEFORE the endpoint count changes, so `send; drop` is not one atomic step; dropping another endpoint commutes with "
         "everything and needs none", [MPSC + "::" + f], B_CH)
    for (n, f) in _ENDS
]
DROP_C06 = [
    KSTD(Kb, "C06.mpsc.%s" % n, "c06_mpsc_%s" % n,
         "dropping an endpoint: the count of its kind is one less, the other count and the buffered messages are untouched (drained before "
         "disconnection is reported); if it was the last endpoint every peer blocked on the channel is Runnable, otherwise nobody is woken",
         [MPSC + "::" + f], B_CH)
    for (n, f) in _ENDS
]
PROPS["C06"] = {
    "scope": "blocking predicates (K complete); non-blocking send/receive segments on the real channel state (Kb)",
    "kani": MPSCH,
    "overlay_files": STD_OVERLAY,
    "assumptions": [A_BT, A_DUMMY, A_TLS, A_HEAP, A_SWITCH],
    "not_decided": ["receive path (try_recv / recv): the harnesses exhaust memory (SmallVec::remove over symbolic state) and were withdrawn; "
                    "blocking send second segment", "eventual release of blocked endpoints (liveness)"],
}

THREAD = "shuttle-std/src/thread.rs"
B_THR = "3 tasks; the other two tasks in one fixed configuration (one blocked, one parked); the caller's / target's park state symbolic"
CVH = [
    KSTD(Kb, "C05.thread.park", "c05_thread_park",
         "park(): with a pending token it is consumed, no blocking, no choice point (legal omission: the park state is observable by the task "
         "itself only); without one the task is blocked in park (spurious wake-ups permitted), a yield is requested and exactly one choice point "
         "is reached; no token afterwards in either case; no other task touched", [THREAD + "::park"], B_THR),
    KSTD(Kb, "C05.thread.unpark", "c05_thread_unpark",
         "Thread::unpark(): one choice point per call; a parked target becomes Runnable and no token is left; a target that is not parked keeps "
         "its state and holds exactly one token however often it is unparked; no other task touched", [THREAD + "::Thread::unpark"], B_THR),
]
YIELD_NOW = KSTD(Kb, "C02.thread.yield_now", "c02_thread_yield_now",
                 "yield_now(): exactly one choice point, reached with the yield request recorded; the task stays Runnable", [THREAD + "::yield_now"], B_THR)
PROPS["C05"]["kani"] += CVH
PROPS["C05"]["overlay_files"] = STD_OVERLAY
PROPS["C05"]["assumptions"] += [A_TLS, A_HEAP, A_SWITCH,
                                "environment at the choice point inside Condvar::wait: the waiter table is set to a configuration two notify_one calls can produce (rely)"]
PROPS["C05"]["not_decided"] = ["Condvar wait/notify_one: the harnesses (overlay condvar.rs.append.rs) need > 37 GB / end in solver errors and were withdrawn, so "
                               "seeded mutant C05-condvar-epoch-front is NOT caught", "Barrier::wait: the harnesses (overlay barrier.rs.append.rs) time out on HashSet<TaskId> under CBMC (> 33 min) and were withdrawn, so seeded "
                               "mutant C02-barrier-will-block-off-by-one is NOT caught", "Once (closure under a Mutex across coroutine switches): not brought under contract",
                               "`always does release a waiter` as liveness"]
PROPS["C05"]["scope"] = ("park/unpark: the token machine on the real Task methods, complete over every (TaskState, ParkState, woken, waiter) (K); "
                          "the thread-level wrappers park() / Thread::unpark() on a real ExecutionState (Kb)")

# C01: the data-source seeding chain is what replay relies on
PROPS["C01"]["kani"] += [DATA["init"], DATA["chain"]]

# C12: persist_failure / begin_execution (lane V) + the silent-step-bound guard (K)
PROPS["C12"]["verus_units"] = ["failure"]
PROPS["C12"]["scope"] = ("persist_failure emits exactly once per failure when persistence is enabled and never when disabled, for EVERY value earlier "
                         "runs can have left in SCHEDULE_PERSISTED_AT, given begin_execution's postcondition (V, unbounded); step-bound guard and portfolio stop (K)")
PROPS["C12"]["assumptions"] += [
    "lane V threads the thread-locals and I/O of failure.rs through an explicit Env (SCHEDULE_PERSISTED_AT, CurrentSchedule::len, number of serialisations)",
    "init_panic_hook calls begin_execution first and Execution::run calls init_panic_hook for every execution (by reading; neither can run under a verifier)"]
PROPS["C12"]["not_decided"] = ["re-raising the failing task's own payload, deadlock / max-steps messages (inside Execution::run: coroutines, unwinding)",
                               "persist_failure_to_file picks a fresh file (file system)", "PortfolioRunner (OS threads)",
                               "replaying the emitted schedule reproduces the failure: C01"]

# C15 companions (bounded, vector-clocks feature) + exec edges
CLK = "shuttle-engine/src/runtime/task/clock.rs"
CLKH = [
    Kb("C15.clock.update_is_join", "c15_clock_update_is_join", "update == pointwise max with zero extension; both arguments <= result",
       [CLK + "::VectorClock::update"], "length <= 3", features=["vector-clocks"]),
    Kb("C15.clock.partial_cmp_exact", "c15_clock_partial_cmp_exact", "partial_cmp exact characterisation", [CLK + "::VectorClock::partial_cmp"],
       "length <= 3", features=["vector-clocks"]),
    Kb("C15.clock.extend_increment", "c15_clock_extend_increment", "extend zero-extends to id+1 entries; increment adds one to entry id only (strictly greater clock)",
       [CLK + "::VectorClock::extend", CLK + "::VectorClock::increment"], "length <= 4", features=["vector-clocks"]),
]
PROPS["C15"]["kani_companions"] = CLKH[:2]
PROPS["C15"]["kani"] = []   # extend/increment are in the Verus unit (unbounded); the Kani extend harness ended in solver errors and was withdrawn
PROPS["C15"]["overlay_files"] = ["shuttle-engine/src/runtime/task/clock.rs.append.rs"]
PROPS["C15"]["scope"] = ("VectorClock::{new,extend,increment,update,get,partial_cmp} + unify proved unbounded on the extracted code (V); partial order / "
                         "least-upper-bound / growth / edge-domination lemmas (L); bounded Kani companions on the un-rewritten code give counterexamples when V fails")
PROPS["C15"]["assumptions"] = ["A-wrap: a clock entry is < u32::MAX before increment (stated as requires)",
                               "A1: SmallVec<[u32; N]> -> Vec<u32> in the verified text (same sequence semantics)"]
PROPS["C15"]["not_decided"] = ["the per-primitive edges (which clock is joined where in mutex/mpsc/condvar/barrier/once/atomics/spawn/join): only the semaphore "
                               "batches and the lemmas are covered; seeded mutant C15-mpsc-recv-clock (order of two statements in recv_internal) is NOT caught",
                               "replay restricted to a target clock"]

# C07: StorageMap (lane V)
JOINH = [
    KSTD(Kb, "C07.thread.join_finished", "c07_thread_join_finished",
         "JoinHandle::join on a finished thread: returns the closure's published value exactly once (the slot is empty afterwards), never blocks; "
         "exactly one choice point before the result is read", [THREAD + "::JoinHandle::join"], B_THR),
    KSTD(Kb, "C07.thread.join_blocks_until_finished", "c07_thread_join_blocks_until_finished",
         "JoinHandle::join on a running thread: at its single choice point the joiner is Blocked AND registered as the target's waiter (so the "
         "target's exit wakes it); after the environment lets the target finish as thread_fn does (publish, Finished, wake the waiter) join "
         "returns exactly the published value; no other task touched", [THREAD + "::JoinHandle::join"], B_THR),
]
THREAD_FN = Kb("C07.thread_fn.publishes_then_wakes", "c07_thread_fn_publishes_then_wakes",
               "thread_fn (no thread-locals): the closure runs exactly once; afterwards its value is in the join slot, the registered joiner and "
               "nobody else is Runnable, the registration is consumed; no choice point on the exit path when no detached task would be truncated",
               ["shuttle-engine/src/thread_support.rs::thread_fn"], "3 tasks, no thread-local values (the HashMap inside StorageMap is out of CBMC's reach: lane V covers StorageMap)",
               heavy=True, timeout_s=1500)
PROPS["C07"]["kani"] += [THREAD_FN]
JOIN_EARLY = KSTD(Kb, "C07.thread.join_survives_early_wake", "c07_thread_join_survives_early_wake",
                  "JoinHandle::join made runnable BEFORE the joinee has published its result (Scope::spawn's closure wakes the scope owner when the "
                  "last scoped closure returns, i.e. before thread_fn has run the thread-local destructors): it blocks again, still registered as "
                  "the joinee's waiter, and returns exactly the published value afterwards (F8: it used to panic `target should have finished`)",
                  [THREAD + "::JoinHandle::join"], B_THR)
PROPS["C07"]["kani"] += JOINH + [JOIN_EARLY]
PROPS["C07"]["overlay_files"] = STD_OVERLAY + ["shuttle-engine/src/thread_support.rs.append.rs"]
PROPS["C07"]["assumptions"] += [A_TLS, A_HEAP, A_SWITCH, "rely at join's blocking choice point: the target finishes the way thread_fn does (publishes its value, becomes Finished, wakes its registered waiter)"]
PROPS["C02"]["kani"] += JOINH
PROPS["C07"]["verus_units"] = ["storage"]
PROPS["C07"]["scope"] = ("StorageMap::{new,init,pop} proved unbounded on the extracted code: destruction order == initialisation order, each slot "
                         "handed out exactly once, popped slots stay as tombstones (V); join waiter registration (K); JoinHandle::join (finished / running / woken early) and thread_fn without thread-local values on a real ExecutionState (Kb)")
PROPS["C07"]["assumptions"] += ["A-key: StorageKey's derived Hash/Eq obey the HashMap key model (the verified text uses a u64 key)",
                                "A-std: vstd's specifications of HashMap / VecDeque"]
PROPS["C07"]["not_decided"] = ["thread_fn with thread-local values (destructors before publication) and LocalKey::try_with (HashMap under CBMC: no result in 25 min)",
                               "closure runs exactly once, scope(), names and ids reported inside a thread (coroutines)"]
PROPS["C14"]["verus_units"] = ["storage", "cleanup"]
PROPS["C14"]["not_decided"] = ["that dropping a task's continuation really unwinds the task's stack and that user destructors leave the fields cleanup() "
                               "manages alone (coroutines: assumed contract of verif_drop_task_stack in the cleanup unit)", "recycling of coroutine stacks"]
PROPS["C14"]["scope"] = ("a new ExecutionState is fresh and CurrentSchedule::init replaces the recorded schedule (K); global storage is drained in insertion "
                         "order, each slot once (V, StorageMap); ExecutionState::cleanup() on the extracted real body, for any number of tasks and slots: "
                         "afterwards no task, no live id, no storage slot, no label and no tag survives, and the destructor log is exactly: every task stack "
                         "in task order, then every storage slot oldest first, each once, each run while in_cleanup is set and labels/tags are not yet cleared (V)")
PROPS["C14"]["assumptions"] = PROPS["C14"].get("assumptions", []) + [
    "cleanup unit: ExecutionState behind Self::with, the thread-locals LABELS / TASK_ID_TO_TAGS and the destructor runs are threaded through an explicit "
    "World value (ghost event log); StorageMap is represented by its live slots in initialisation order (its pop contract is proved in the storage unit)"]

# C02: every contracted operation asserts `switches() == 1` before its effect; reuse the complete ones here
PROPS["C02"]["kani"] += [ATOM[0], LOCKS[0], LOCKS[2]] + DROP_C02 + CVH + [YIELD_NOW]
PROPS["C06"]["kani"] += DROP_C06
PROPS["C02"]["overlay_files"] = STD_OVERLAY
PROPS["C02"]["assumptions"] += [A_SWITCH]
PROPS["C02"]["scope"] = ("the per-operation sufficient condition: exactly one choice point precedes the effect of every contracted visible operation "
                         "(atomics for all values, Mutex try_lock/lock: K; semaphore try_acquire, Acquire::poll incl. the fair first poll, park / "
                         "Thread::unpark / yield_now / JoinHandle::join, mpsc endpoint Drop: Kb); omitted points are legal (unfair first poll and "
                         "join skip the pre-block point, park skips it only with a pending token); exit-truncation predicate (Kb). The mpsc Drop "
                         "obligations FAIL on the unchanged tree: known finding F5 (KNOWN_FINDINGS.txt)")
PROPS["C02"]["not_decided"] = ["the meta-theorem `every sequentially consistent outcome is produced by some schedule` (exists over schedules, forall programs)",
                               "operations not under contract: Once, spawn, Condvar",
                               "Barrier::wait's legality condition (seeded mutant C02-barrier-will-block-off-by-one is NOT caught: harness withdrawn, see C05)"]

# ---------------- C20 ----------------
DET = "wrappers/collections/deterministic_collections/src/lib.rs"
PLRW = "wrappers/parking_lot/parking_lot_impl/src/raw_rwlock.rs"
C20_OVERLAY = SEM_OVERLAY + ["wrappers/collections/deterministic_collections/src/lib.rs.append.rs",
                             "wrappers/parking_lot/parking_lot_impl/src/raw_rwlock.rs.append.rs",
                             "wrappers/parking_lot/parking_lot_impl/Cargo.toml.rules"]
B_PL = None


def KPL(name, harness, formula, fns, tier="quick"):
    return K(name, harness, formula, [PLRW + "::" + f for f in fns], crate="shuttle-parking_lot-impl", tier=tier, heavy=True, timeout_s=1500)


C20H = [
    K("C20.collections.hasher_is_fixed", "c20_collections_hasher_is_fixed",
      "every constructor (new, with_capacity, default, FromIterator, From<std collection with a foreign hasher>) and every set operator (| & ^ -) of the "
      "deterministic HashMap/HashSet yields the fixed hasher state, never RandomState::new() (stubbed to a recognisable non-fixed value)",
      [DET + "::HashMap::{new,with_capacity,default,from_iter,from}", DET + "::HashSet::{new,with_capacity,default,from_iter,from,bitand,bitor,bitxor,sub}"],
      crate="deterministic_collections"),
    KPL("C20.pl.try_lock_upgradable", "c20_pl_try_lock_upgradable",
        "try_lock_upgradable succeeds iff the slot and a shared permit are both free; on failure BOTH semaphores are unchanged", ["try_lock_upgradable"]),
    KPL("C20.pl.try_lock_shared_exclusive", "c20_pl_try_lock_shared_exclusive",
        "try_lock_shared / try_lock_exclusive succeed exactly when permitted and leave nothing behind on failure", ["try_lock_shared", "try_lock_exclusive"]),
    KPL("C20.pl.downgrade", "c20_pl_downgrade", "exclusive -> shared releases all but one permit and never waits", ["downgrade"]),
    KPL("C20.pl.downgrade_upgradable", "c20_pl_downgrade_upgradable", "upgradable -> shared gives the slot back, keeps the shared permit, never waits",
        ["downgrade_upgradable"], tier="thorough"),
    KPL("C20.pl.downgrade_to_upgradable_slot_free", "c20_pl_downgrade_to_upgradable_slot_free",
        "exclusive -> upgradable with the slot free: completes without waiting; holder keeps one permit and owns the slot", ["downgrade_to_upgradable"]),
    KPL("C20.pl.downgrade_to_upgradable_slot_held_by_queued_task", "c20_pl_downgrade_to_upgradable_slot_held_by_queued_task",
        "exclusive -> upgradable while a task queued in lock_upgradable holds the slot (a state the lock invariant allows): must complete without waiting "
        "-- FAILS on the unchanged tree: known finding F6", ["downgrade_to_upgradable", "lock_upgradable"]),
]
PROPS["C20"] = {
    "scope": "deterministic collections: the hasher state is the fixed one however a map/set is built (K, found F7); parking_lot RawRwLock try-variants "
             "and downgrades against the real semaphores over the states allowed by the lock invariant (K)",
    "kani": C20H,
    "overlay_files": C20_OVERLAY,
    "assumptions": [A_BT, A_DUMMY, A_TLS, A_HEAP, A_SWITCH, "A-hashbrown: iteration order is a function of hasher state and operation history",
                    "stub: RandomState::new -> a fixed non-zero value (what any process-random state looks like to the contract)",
                    "overlay adds a path dependency on shuttle-engine to parking_lot_impl's Cargo.toml in the scratch copy (harness helpers)"],
    "not_decided": ["DashMap/DashSet linearizability; rand wrapper; lazy_static; parking_lot Mutex; blocking lock_*/upgrade paths (via C18 only)",
                    "serde Deserialize of the deterministic collections (builds the inner map with the default hasher; noted by a sub-agent, not examined)"],
}


# ---------------- lane V units added in the last round (Env/World-threaded extraction of the real bodies) ----------------
BARRIER_ASSUME = ["barrier unit: the RefCell'd BarrierState, the tasks behind ExecutionState::with and thread::switch() are threaded through an explicit World; "
                  "thread::switch() havocs the world under the barrier's rely condition (World::switch: the invariant holds again when I resume; a task "
                  "that blocked itself as a member of a generation resumes only after the epoch moved on, which is the completing arrival's proved postcondition)",
                  "barrier unit: std HashSet by its documented contract (len / insert / remove / contains / drain: external_body stand-in); VectorClock "
                  "values opaque with update/increment as uninterpreted functions (their meaning is proved in the clock unit)",
                  "A-wrap: the barrier's generation counter stays below u64::MAX"]
PROPS["C05"]["verus_units"] = PROPS["C05"].get("verus_units", []) + ["barrier"]
PROPS["C05"]["assumptions"] += BARRIER_ASSUME
PROPS["C05"]["not_decided"] = ["Condvar wait/notify_one: the harnesses (overlay condvar.rs.append.rs) need > 37 GB / end in solver errors and were withdrawn, so "
                               "seeded mutant C05-condvar-epoch-front is NOT caught",
                               "Once (closure under a Mutex across coroutine switches): not brought under contract",
                               "`always does release a waiter` as liveness (the safety form is decided: the arrival that completes a barrier generation makes every member runnable)"]
PROPS["C05"]["scope"] += ("; Barrier::wait on the extracted real body for EVERY bound, waiter set and epoch (V, unbounded): an early arrival registers, blocks and "
                          "only then reaches its choice point, and returns only after its generation was released; the completing arrival releases exactly "
                          "the group (waiters + itself), nobody else, empties the set, moves the epoch on and leaves exactly one leader token per generation, "
                          "taken by exactly one task")
PROPS["C02"]["verus_units"] = PROPS["C02"].get("verus_units", []) + ["barrier"]
PROPS["C02"]["assumptions"] += BARRIER_ASSUME[:1]
PROPS["C02"]["not_decided"] = ["the meta-theorem `every sequentially consistent outcome is produced by some schedule` (exists over schedules, forall programs)",
                               "operations not under contract: Once, spawn, Condvar"]
PROPS["C02"]["scope"] += ("; Barrier::wait (V, unbounded): the choice point before an arrival is omitted only when the arrival blocks; an arrival that completes "
                          "the group is preceded by a choice point at which nothing has happened yet, and no choice point separates registering from blocking")
PROPS["C15"]["verus_units"] = PROPS["C15"].get("verus_units", []) + ["barrier", "permits"]
PROPS["C15"]["assumptions"] += BARRIER_ASSUME[1:2]
PROPS["C15"]["scope"] += ("; barrier edge (V): every arrival ticks its own clock and is absorbed into the barrier's clock, every released member leaves with "
                          "its ticked clock joined with the barrier's clock (so departures dominate all arrivals); semaphore edge (V, permits unit): the clock "
                          "an acquire returns is the join of the clocks of exactly the release batches it consumes, oldest first")
PROPS["C15"]["not_decided"] = ["the per-primitive edges in mutex/mpsc/condvar/once/atomics/spawn/join (barrier and semaphore batches are decided); seeded mutant "
                               "C15-mpsc-recv-clock (order of two statements in recv_internal) is NOT caught",
                               "replay restricted to a target clock"]
PROPS["C18"]["verus_units"] = PROPS["C18"].get("verus_units", []) + ["permits"]
PROPS["C18"]["scope"] += ("; PermitsAvailable::{const_new, available, init_permit_clocks, acquire, release} on the extracted real bodies for queues of ANY length "
                          "(V, unbounded): acquire succeeds exactly when enough permits are available, takes them from the oldest batches first, failure "
                          "leaves the state unchanged, sum of batch sizes == num_available is preserved")
PROPS["C16"]["verus_units"] = PROPS["C16"].get("verus_units", []) + ["encoder"]
PROPS["C16"]["scope"] += ("; the real serialize_schedule body for every schedule (all seeds, step sequences, id widths; V, unbounded) satisfies "
                          "spec_deserialize(result) == Some(schedule) over the decoder unit's own specification function -- with the decoder unit's theorem "
                          "(deserialize_schedule == spec_deserialize) this is the round trip, also for re-wrapped / whitespace-padded text (L: theorem_roundtrip)")
PROPS["C16"]["assumptions"] += ["encoder unit: bitvec set/store/as_raw_slice, hex::encode, the line-wrapping chain, usize::leading_zeros and the varint writer as "
                                "assumed contracts (external_body / axioms; the varint round trip itself is PROVED in lane K); the same spec_bit / spec_load "
                                "functions describe the BitVec written and the BitSlice read; A-mem: steps.len() * 65 <= usize::MAX / 8"]
PROPS["C16"]["not_decided"] = ["schedules beyond the A-mem bound (steps.len() * 65 > usize::MAX / 8: bitvec refuses them)",
                               "the library contracts assumed for bitvec / hex (listed under assumptions)"]
PROPS["C11"] = {
    "scope": "PctScheduler::{new_execution, next_task} on the extracted real bodies for every number of tasks, depth and step count (V, unbounded): representation "
             "invariant (priority keys exactly 0..len, values pairwise distinct and < next_priority; change points <= depth-1, distinct, each in [1, max_steps)); "
             "new_execution returns None exactly when the budget is used up, otherwise counts one iteration and from the second iteration on re-draws a "
             "permutation of the priorities and min(depth-1, max_steps-1) distinct change points in [1, max_steps); next_task returns the offered task of "
             "strictly minimal priority value in the final map; a demotion happens exactly when more than one task is offered and (the step is a change point "
             "or the task yields), hits only `current`, and puts it below everybody; with no new task ids nothing else changes; steps / max_steps advance "
             "exactly on multi-choice decisions; L: at most depth-1 steps of an execution are change points",
    "verus_units": ["pct"],
    "kani": [],
    "overlay_files": [],
    "assumptions": ["A-key: TaskId is a usize-like HashMap key obeying vstd's key model (the verified text uses a usize key)",
                    "A-rng (assumed contracts, external_body): gen_range(a..b) in [a, b); shuffle returns a permutation of its input; "
                    "rand::seq::index::sample(_, length, amount) returns `amount` distinct values < length; RandomDataSource::reinitialize unconstrained",
                    "A-wrap: steps, next_priority and the largest offered id stay below usize::MAX (stated as requires)",
                    "documented panic as precondition: from the second iteration on max_steps > 0 (`test closure did not exercise any concurrency`)"],
    "not_decided": ["the detection-probability bound 1/(n*k^(d-1)) and uniformity of the random draws (distributional; no contract over one call expresses them)",
                    "`deterministically for a given seed` beyond the frame clauses (the rng is opaque in the verified text; seeding is covered for the shared "
                    "data source under C10)",
                    "the composition of the per-call contracts over a whole run"],
}

MPSC_ASSUME = ["mpsc_recv unit: the RefCell'd ChannelState is reached as ch.state, the tasks behind ExecutionState::with through an explicit World, and "
               "thread::switch() havocs both under the channel's rely condition (verif_switch: the channel invariant holds when I resume; a receiver that "
               "blocked itself in waiting_receivers resumes still queued exactly once, and either it is the head receiver and a message is there, or the "
               "channel is empty and every sender is gone -- the guarantees of send_internal and of the endpoint Drops, the latter checked under C06.mpsc.*_drop)",
               "mpsc_recv unit: Vec::retain by its documented contract (external_body); SmallVec -> Vec (A1); VectorClock values opaque with update / increment "
               "as uninterpreted functions (their meaning is proved in the clock unit)"]
for _p in ("C06", "C15", "C02"):
    PROPS[_p]["verus_units"] = PROPS[_p].get("verus_units", []) + ["mpsc_recv"]
    PROPS[_p]["assumptions"] = PROPS[_p].get("assumptions", []) + MPSC_ASSUME
PROPS["C06"]["scope"] += ("; Channel::recv_internal (recv and try_recv) on the extracted real body for every kind of channel, buffer length and queue length "
                          "(V, unbounded): a delivered value is the OLDEST buffered message and leaves the buffer exactly once, the rest keeps its order; "
                          "Disconnected exactly when empty and no sender is left, Empty exactly when a try_recv may take nothing, both leaving everything "
                          "untouched; a blocking receiver queues at the tail, blocks, and only then reaches its choice point; the first waiting sender is "
                          "released exactly when the receive made room (buffered) or another receiver waits (rendezvous), the next receiver exactly when "
                          "messages remain, nobody else is touched")
PROPS["C06"]["not_decided"] = ["send_internal's second (post-block) segment; recv_timeout timing", "eventual release of blocked endpoints (liveness)"]
PROPS["C15"]["scope"] += ("; mpsc receive edges (V, mpsc_recv unit): the receiver's clock absorbs the clock the message was sent with, and on a buffered bounded "
                          "channel the clock queued for the send this receive frees is the receiver's clock AFTER absorbing the message")
PROPS["C15"]["not_decided"] = ["the per-primitive edges in mutex/condvar/once/atomics/spawn/join and the mpsc SEND side (barrier, semaphore batches and the mpsc "
                               "receive side are decided)", "replay restricted to a target clock"]
PROPS["C02"]["scope"] += "; mpsc recv / try_recv (V): exactly one choice point before anything happens, a second one only to block, after registering and blocking"

PROPS["C06"]["scope"] += ("; Channel::send_internal (send and try_send) and sender_must_block on the extracted real bodies (V, unbounded, same unit): Disconnected "
                          "exactly when no receiver is left and Full exactly when a try_send would have to wait, both handing the value back and leaving "
                          "everything untouched; a blocking send waits exactly when full / senders queued / (rendezvous) nobody receives, queues at the tail, "
                          "blocks, then reaches its choice point; an accepted value is appended at the TAIL exactly once, the buffer never exceeds "
                          "max(capacity, 1); the first waiting receiver is released, the next waiting sender exactly when there is still room")
PROPS["C06"]["not_decided"] = ["recv_timeout timing", "eventual release of blocked endpoints (liveness): decided in the safety form only (the operation that makes the "
                               "wake-up condition true also makes the waiter runnable)"]
PROPS["C15"]["scope"] += ("; mpsc send edges (V): the message carries the sender's ticked clock; on a rendezvous channel the sender absorbs the waiting receiver's "
                          "clock, on a buffered bounded channel the OLDEST queued receive clock, which leaves the return queue")
PROPS["C15"]["not_decided"] = ["the per-primitive edges in mutex/condvar/once/atomics/spawn/join (barrier, semaphore batches and both sides of mpsc are decided)",
                               "replay restricted to a target clock"]
PROPS["C02"]["scope"] += "; mpsc send / try_send (V): likewise"

PROPS["C11"]["technique"] = ("contract-based deductive verification: Verus (requires/ensures/loop invariants, lemma) on the bodies of PctScheduler::new_execution / "
                             "next_task extracted mechanically from /repo on every run; no Kani part")

# vp check (request 5): `./check C02 --tier quick` exceeded 900 s on the reference machine. The heaviest obligations C02 merely shares with their home
# properties (where they stay in the quick tier) move to C02's thorough tier; C02's own obligations (incl. the three F5 known-finding ones) stay quick.
_C02_SHARED_HEAVY = {"C04.mutex.try_lock_free", "C04.mutex.unlock_wakes_waiter", "C07.thread.join_blocks_until_finished", "C07.thread.join_finished",
                     "C18.sem.try_acquire_fair", "C05.thread.park", "C05.thread.unpark"}
PROPS["C02"]["kani"] = [dict(o, tier="thorough") if o["name"] in _C02_SHARED_HEAVY else o for o in PROPS["C02"]["kani"]]
