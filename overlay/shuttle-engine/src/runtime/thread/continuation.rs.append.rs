#[cfg(kani)]
impl PooledContinuation {
    /// A continuation-less stand-in: coroutine stacks need mmap + global asm and cannot exist under Kani.
    /// Its Drop would unwrap `None`, so every harness `mem::forget`s the tasks holding one.
    pub(crate) fn verif_empty() -> Self {
        PooledContinuation {
            continuation: None,
            queue: Rc::new(RefCell::new(VecDeque::new())),
        }
    }
}
