#[cfg(kani)]
mod verif_rwlock {
    //! C04: RwLock segments. inv_RW: None <=> MAX permits; Write(_) <=> 0 permits; Read(S) <=> MAX - |S| permits.
    use super::*;
    use shuttle_engine::runtime::execution::verif_exec::{new_store, run_in, state_with, use_store, SpecSched};
    use shuttle_engine::runtime::task::TaskState;
    use shuttle_engine::verif_support::{fixed_random_state, stub_false, switches, ts_contains, ts_insert, ts_is_empty, ts_len, ts_remove, verif_switch};
    use std::rc::Rc;

    const BLOCKED: TaskState = TaskState::Blocked { allow_spurious_wakeups: false };

    #[derive(Clone, Copy, PartialEq, Eq)]
    enum H {
        Free,
        WriteOther,
        ReadOther,
        ReadMe,
        ReadBoth,
    }

    fn mk(h: H) -> RwLock<u8> {
        let l = RwLock {
            inner: std::sync::RwLock::new(7u8),
            semaphore: BatchSemaphore::const_new_with_signature(MAX_READS, Fairness::Unfair, SIG),
            state: RefCell::new(RwLockState { holder: RwLockHolder::None }),
        };
        let set = |ids: &[usize]| {
            let mut s = TaskSet::new();
            for i in ids {
                s.insert(TaskId::from(*i));
            }
            RwLockHolder::Read(s)
        };
        let (holder, taken) = match h {
            H::Free => (RwLockHolder::None, 0),
            H::WriteOther => (RwLockHolder::Write(TaskId::from(1)), MAX_READS),
            H::ReadOther => (set(&[1]), 1),
            H::ReadMe => (set(&[0]), 1),
            H::ReadBoth => (set(&[0, 1]), 2),
        };
        l.state.borrow_mut().holder = holder;
        l.semaphore.verif_take(taken);
        l
    }
    const SIG: ResourceSignature = ResourceSignature::new_const(ResourceType::RwLock);

    fn permits_for(h: H) -> usize {
        match h {
            H::Free => MAX_READS,
            H::WriteOther => 0,
            H::ReadOther | H::ReadMe => MAX_READS - 1,
            H::ReadBoth => MAX_READS - 2,
        }
    }

    fn ts_contains_me() -> bool {
        ts_contains(&TaskSet::new(), TaskId::from(0))
    }

    fn try_lock_contract(h: H, typ: RwLockType) {
        let mut store = new_store();
        use_store(&mut store);
        let st = state_with([TaskState::Runnable, TaskState::Runnable, BLOCKED], 0, Rc::new(RefCell::new(SpecSched::new())));
        let l = mk(h);
        let (ok, _cell) = run_in(st, || l.try_lock(typ));
        assert!(switches() == 1);
        // succeeds exactly when the lock is available to me (a re-entrant attempt fails)
        let expect = match (typ, h) {
            (RwLockType::Write, H::Free) => true,
            (RwLockType::Write, _) => false,
            (RwLockType::Read, H::Free) | (RwLockType::Read, H::ReadOther) => true,
            (RwLockType::Read, _) => false,
        };
        assert!(ok == expect);
        let p = l.semaphore.available_permits();
        if ok {
            assert!(p == permits_for(h) - typ.num_permits());
            // inv_RW afterwards: the holder agrees with the permits taken
            match &l.state.borrow().holder {
                RwLockHolder::Write(w) => assert!(typ == RwLockType::Write && *w == TaskId::from(0)),
                RwLockHolder::Read(_) => assert!(typ == RwLockType::Read && ts_contains_me() && MAX_READS - p == ts_len()),
                RwLockHolder::None => assert!(false),
            }
        } else {
            // a failed attempt leaves the lock unchanged: no permit is consumed
            assert!(p == permits_for(h));
        }
        std::mem::forget(l);
    }

    /// C04.rwlock.try_read [K over the five holder shapes]
    #[kani::proof]
    #[kani::solver(minisat)]
    #[kani::unwind(6)]
    #[kani::stub(shuttle_engine::runtime::thread::continuation::switch, verif_switch)]
    #[kani::stub(std::hash::RandomState::new, fixed_random_state)]
    #[kani::stub(shuttle_engine::backtrace_enabled, stub_false)]
    #[kani::stub(shuttle_engine::runtime::task::TaskSet::insert, ts_insert)]
    #[kani::stub(shuttle_engine::runtime::task::TaskSet::remove, ts_remove)]
    #[kani::stub(shuttle_engine::runtime::task::TaskSet::contains, ts_contains)]
    #[kani::stub(shuttle_engine::runtime::task::TaskSet::is_empty, ts_is_empty)]
    fn c04_rwlock_try_read_free_or_other() {
        try_lock_contract(if kani::any() { H::Free } else { H::ReadOther }, RwLockType::Read);
        kani::cover!(true);
    }

    #[kani::proof]
    #[kani::solver(minisat)]
    #[kani::unwind(6)]
    #[kani::stub(shuttle_engine::runtime::thread::continuation::switch, verif_switch)]
    #[kani::stub(std::hash::RandomState::new, fixed_random_state)]
    #[kani::stub(shuttle_engine::backtrace_enabled, stub_false)]
    #[kani::stub(shuttle_engine::runtime::task::TaskSet::insert, ts_insert)]
    #[kani::stub(shuttle_engine::runtime::task::TaskSet::remove, ts_remove)]
    #[kani::stub(shuttle_engine::runtime::task::TaskSet::contains, ts_contains)]
    #[kani::stub(shuttle_engine::runtime::task::TaskSet::is_empty, ts_is_empty)]
    fn c04_rwlock_try_read_reentrant() {
        try_lock_contract(if kani::any() { H::ReadMe } else { H::ReadBoth }, RwLockType::Read);
        kani::cover!(true);
    }

    #[kani::proof]
    #[kani::solver(minisat)]
    #[kani::unwind(6)]
    #[kani::stub(shuttle_engine::runtime::thread::continuation::switch, verif_switch)]
    #[kani::stub(std::hash::RandomState::new, fixed_random_state)]
    #[kani::stub(shuttle_engine::backtrace_enabled, stub_false)]
    #[kani::stub(shuttle_engine::runtime::task::TaskSet::insert, ts_insert)]
    #[kani::stub(shuttle_engine::runtime::task::TaskSet::remove, ts_remove)]
    #[kani::stub(shuttle_engine::runtime::task::TaskSet::contains, ts_contains)]
    #[kani::stub(shuttle_engine::runtime::task::TaskSet::is_empty, ts_is_empty)]
    fn c04_rwlock_try_read_while_written() {
        try_lock_contract(H::WriteOther, RwLockType::Read);
        kani::cover!(true);
    }

    #[kani::proof]
    #[kani::solver(minisat)]
    #[kani::unwind(6)]
    #[kani::stub(shuttle_engine::runtime::thread::continuation::switch, verif_switch)]
    #[kani::stub(std::hash::RandomState::new, fixed_random_state)]
    #[kani::stub(shuttle_engine::backtrace_enabled, stub_false)]
    #[kani::stub(shuttle_engine::runtime::task::TaskSet::insert, ts_insert)]
    #[kani::stub(shuttle_engine::runtime::task::TaskSet::remove, ts_remove)]
    #[kani::stub(shuttle_engine::runtime::task::TaskSet::contains, ts_contains)]
    #[kani::stub(shuttle_engine::runtime::task::TaskSet::is_empty, ts_is_empty)]
    fn c04_rwlock_try_write() {
        let h = match kani::any::<u8>() % 4 { 0 => H::Free, 1 => H::WriteOther, 2 => H::ReadOther, _ => H::ReadMe };
        try_lock_contract(h, RwLockType::Write);
        kani::cover!(true);
    }
}
