M=/var/tmp/recv_mut; rm -rf $M; mkdir -p $M/shuttle-std/src/sync; F=shuttle-std/src/sync/mpsc.rs
cd /verif
run(){ python3 -m pipeline.vdev mpsc_recv $M 2>&1 | grep -E "^unit|ERR|AnchorLost" | cut -c1-160; }
m(){ cp /repo/$F $M/$F; echo "== $1"; python3 - "$2" "$3" <<'E'
import sys
p='/var/tmp/recv_mut/shuttle-std/src/sync/mpsc.rs'
s=open(p).read()
i=s.index("fn recv_internal")
assert sys.argv[1] in s[i:], "pattern not found"
s=s[:i]+s[i:].replace(sys.argv[1], sys.argv[2],1)
open(p,'w').write(s)
E
run; }
cp /repo/$F $M/$F; (cd $M && patch -p1 -s < /verif/seeded/C15-mpsc-recv-clock/patch.diff); echo "== seed C15 recv clock pushed before the join"; run
m "takes the newest message" "let item = state.messages.remove(0);" "let item = state.messages.pop().unwrap();"
m "disconnected even if messages remain" "if state.messages.is_empty() && state.known_senders == 0 {
            return Err(TryRecvError::Disconnected);" "if state.known_senders == 0 {
            return Err(TryRecvError::Disconnected);"
m "try_recv Empty off by one" "state.waiting_receivers.len() >= state.messages.len()" "state.waiting_receivers.len() > state.messages.len()"
m "wake sender only if bound>1" "if bound > 0 || !state.waiting_receivers.is_empty() {" "if bound > 1 || !state.waiting_receivers.is_empty() {"
m "no clock update from message" "            s.get_clock_mut(me).update(&clock);
" ""
m "no pre-increment" "        ExecutionState::with(|s| {
            let _ = s.increment_clock();
        });
" ""
m "next receiver woken even when empty" "            if !state.messages.is_empty() {
                ExecutionState::with(|s| s.get_mut(tid).unblock());" "            if true {
                ExecutionState::with(|s| s.get_mut(tid).unblock());"
m "block before registering -> register after switch" "            state.waiting_receivers.push(me);
" ""
m "no initial switch" "        thread::switch();

        let me = ExecutionState::me();" "        let me = ExecutionState::me();"
m "resume-disconnect does not leave the queue" "                state.waiting_receivers.retain(|t| *t != me);
" ""
rm -rf $M
