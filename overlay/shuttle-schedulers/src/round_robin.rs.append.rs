#[cfg(kani)]
mod verif_rr {
    use super::*;
    use shuttle_engine::runtime::execution::verif_exec::{any_current, new_store, N};

    /// C13.budget.round_robin [K: all (iterations, max)]: Some exactly while iterations < max, then None forever.
    #[kani::proof]
    #[kani::unwind(6)]
    fn c13_budget_round_robin() {
        let mut s = RoundRobinScheduler::new(kani::any());
        s.iterations = kani::any();
        let (it, mx) = (s.iterations, s.max_iterations);
        let r = s.new_execution();
        assert!(r.is_some() == (it < mx));
        assert!(s.iterations == if it < mx { it + 1 } else { it });
        kani::cover!(r.is_some());
        kani::cover!(r.is_none());
        std::mem::forget(r);
    }

    /// C08.rr.next_task_in_offered [K]: the answer is always one of the offered tasks
    #[kani::proof]
    #[kani::unwind(6)]
    fn c08_rr_next_task_in_offered() {
        let mut s = RoundRobinScheduler::new(1);
        let store = new_store();
        let refs: [&Task; N] = [&store[0], &store[1], &store[2]];
        let n: usize = kani::any();
        kani::assume(n >= 1 && n <= N);
        let cur = any_current();
        let r = s.next_task(&refs[..n], cur, kani::any());
        assert!(r.is_some() && usize::from(r.unwrap()) < n);
        // round robin: the next id after `current`, wrapping to the first offered
        let exp = match cur {
            None => 0,
            Some(c) => { let c = usize::from(c); if c + 1 < n { c + 1 } else { 0 } }
        };
        assert!(usize::from(r.unwrap()) == exp);
        kani::cover!(cur.is_some());
    }
}
