"""Driver: ./check <Cxx> [--tier quick|thorough] [--replay <file>]   (DESIGN.md §2.4, §2.5)

exit 0  every obligation of the property discharged (known findings printed as KNOWN-FINDING lines)
exit 1  a violated obligation that is not a listed known finding: `VIOLATION property=<id> replay=<path>`
exit 2  undecided (lost anchor, unsupported construct, resource cap, vacuity guard) -- never an alarm
"""
import argparse
import json
import os
import re
import sys
import time

from . import kani, verus
from .scratch import REPO, VERIF, AnchorLost, Scratch
from .units import PROPS, CANARY_KANI

EVID = os.path.join(VERIF, "evidence")
REPLAY = os.path.join(VERIF, "replay")
LOGS = os.path.join(VERIF, "logs")
KNOWN = os.path.join(VERIF, "KNOWN_FINDINGS.txt")


def load_known():
    findings = []
    if os.path.exists(KNOWN):
        for l in open(KNOWN):
            l = l.strip()
            if l.startswith("finding:"):
                kv = dict(m.group(1, 2) for m in re.finditer(r'(\w+)=("[^"]*"|\S+)', l))
                kv = {k: v.strip('"') for k, v in kv.items()}
                kv["_line"] = l
                findings.append(kv)
    return findings


def repo_rev():
    import subprocess
    try:
        h = subprocess.run(["git", "-C", REPO, "rev-parse", "HEAD"], stdout=subprocess.PIPE, text=True).stdout.strip()
        d = subprocess.run(["git", "-C", REPO, "status", "--porcelain"], stdout=subprocess.PIPE, text=True).stdout
        return h + ("+dirty" if d.strip() else "")
    except Exception:
        return "unknown"


def main(argv=None):
    ap = argparse.ArgumentParser()
    ap.add_argument("prop")
    ap.add_argument("--tier", default=os.environ.get("VERIF_TIER", "quick"), choices=["quick", "thorough"])
    ap.add_argument("--replay")
    ap.add_argument("--only", help="comma separated obligation-name substrings (debugging)")
    ap.add_argument("--jobs", type=int, default=int(os.environ.get("VERIF_JOBS", "8")))
    a = ap.parse_args(argv)
    pid = a.prop
    if pid not in PROPS:
        print("unknown or unclaimed property %s" % pid, file=sys.stderr)
        return 2
    if a.replay:
        from .replay import do_replay
        return do_replay(pid, a.replay)
    seed = int(os.environ.get("VERIF_SEED", "0") or 0)
    t0 = time.time()
    P = PROPS[pid]
    only = a.only.split(",") if a.only else None

    obligations = []   # each: dict(name, lane, status, ...)
    undecided = []
    violated = []

    # ---------------- lane V / L ----------------
    for uname in P.get("verus_units", []):
        try:
            res, unit = verus.check_unit(uname)
        except AnchorLost as e:
            undecided.append("verus unit %s: anchor lost: %s" % (uname, e))
            obligations.append({"name": "V:%s" % uname, "lane": "V", "status": "undecided", "reason": str(e)})
            continue
        fn_results = {f["function"].split("::", 1)[-1]: f for f in res["functions"]}
        expected = unit.get("expected_functions")
        names_seen = set()
        errs_by_fn = {}
        for e in res["errors"]:
            errs_by_fn.setdefault(e["fn"], []).append(e)
        tool_errors = [e for e in res["errors"] if e["cls"] == "tool"]
        if tool_errors or (not res["functions"] and not res["ok"]):
            msg = "; ".join(e["msg"] for e in tool_errors[:3]) or res["stderr"][-500:]
            undecided.append("verus unit %s rejected by the verifier front end: %s" % (uname, msg))
        for fname, f in sorted(fn_results.items()):
            short = fname.split("::")[-1]
            lane = "L" if f["mode"] == "proof" else "V"
            ob = {"name": "%s:%s:%s" % (lane, uname, fname), "lane": lane, "backend": "verus+z3",
                  "solver_s": f["smt_ms"] / 1000.0, "function": fname,
                  # extracted from /repo (a real function) vs. a helper / lemma of the unit's prelude
                  "real": short in (res.get("extracted_fns") or []), "source": unit.get("source")}
            names_seen.add(short)
            if f["ok"]:
                ob["status"] = "discharged"
            else:
                es = errs_by_fn.get(short, [])
                classes = set(e["cls"] for e in es)
                ob["errors"] = es
                if "violation" in classes:
                    ob["status"] = "violated"
                elif "invariant" in classes:
                    ob["status"] = "invariant-failed"
                else:
                    ob["status"] = "undecided"
                    ob["reason"] = "; ".join(e["msg"] for e in es) or "no error message matched"
            obligations.append(ob)
        # functions expected but not reported by Verus (trivial functions produce no SMT query but appear in count)
        for must in unit.get("must_verify", []):
            if must not in names_seen and not tool_errors:
                # trivially verified functions do not show up in the breakdown; accept when overall ok
                if not res["ok"]:
                    undecided.append("verus unit %s: function %s missing from results" % (uname, must))
        if res.get("canary_rejected") is False:
            undecided.append("verus unit %s: canary lemma was not rejected" % uname)
        P.setdefault("_verus", {})[uname] = res

    # ---------------- lane K / Kb ----------------
    kjobs = []
    for ob in P.get("kani", []):
        if a.tier == "quick" and ob.get("tier", "quick") != "quick":
            continue
        if only and not any(s in ob["name"] for s in only):
            continue
        kjobs.append(ob)
    # companions: Kb harnesses that exist to find concrete inputs for failed V obligations
    need_companions = any(o["status"] in ("violated", "invariant-failed") for o in obligations)
    companions = [ob for ob in P.get("kani_companions", [])]
    run_comp = companions if (need_companions or a.tier == "thorough") else []
    kresults = {}
    scratch_applied = None
    if kjobs or run_comp:
        try:
            with Scratch() as sc:
                scratch_applied = sc.applied
                jobs = []
                for ob in kjobs + run_comp + [CANARY_KANI]:
                    jobs.append({"crate": ob["crate"], "features": ob.get("features"), "harness": ob["harness"],
                                 "timeout_s": ob.get("timeout_s", 900 if a.tier == "quick" else 3600)})
                logdir = os.path.join(LOGS, pid)
                heavy = any(ob.get("heavy") for ob in kjobs + run_comp)
                kresults = kani.run_many(sc, jobs, logdir, min(a.jobs, 3) if heavy else a.jobs)
                # counterexamples for failed harnesses
                from .replay import kani_counterexample
                known_obs = set(k.get("obligation") for k in load_known() if k.get("property") == pid)
                for ob in kjobs + run_comp:
                    r = kresults.get(ob["harness"])
                    if r and r["status"] == "failed" and ob["name"] not in known_obs:
                        r["cex"] = kani_counterexample(sc, ob, logdir, r.get("solver_s"))
        except AnchorLost as e:
            undecided.append("overlay: anchor lost: %s" % e)

    if kjobs or run_comp:
        cr = kresults.get(CANARY_KANI["harness"])
        if not cr or cr["status"] != "failed":
            undecided.append("Kani canary did not fail (%s)" % (cr and cr.get("status")))
    for ob in kjobs + run_comp:
        r = kresults.get(ob["harness"])
        o = {"name": ob["name"], "lane": ob["lane"], "backend": "kani+cbmc(cadical)", "harness": ob["harness"],
             "formula": ob.get("formula", ""), "functions": ob.get("functions", []), "bound": ob.get("bound")}
        if r is None:
            o["status"] = "undecided"
            o["reason"] = "not run"
        else:
            o["wall_s"] = r.get("wall_s")
            o["solver_s"] = r.get("solver_s")
            o["checks"] = r.get("checks")
            o["cmd"] = r.get("cmd")
            if r["status"] == "ok":
                if ob.get("should_panic"):
                    # Kani reports success for a #[kani::should_panic] harness only if a panic IS reachable
                    o["status"] = "discharged"
                elif r["covers"] < 1 or r["covers_sat"] != r["covers"]:
                    o["status"] = "undecided"
                    o["reason"] = "vacuity guard: %d of %d cover properties satisfied" % (r["covers_sat"], r["covers"])
                else:
                    o["status"] = "discharged"
            elif r["status"] == "failed":
                o["status"] = "violated"
                o["failed_checks"] = r["failed_checks"]
                o["cex"] = r.get("cex")
            else:
                o["status"] = "undecided"
                o["reason"] = r.get("reason", "")
        o["companion"] = ob in run_comp
        obligations.append(o)

    # ---------------- verdicts ----------------
    known = [k for k in load_known() if k.get("property") == pid]
    os.makedirs(REPLAY, exist_ok=True)
    viol_lines = []
    known_lines = []
    comp_cex = [o for o in obligations if o.get("companion") and o["status"] == "violated"]
    for o in obligations:
        if o["status"] == "invariant-failed":
            # a failed loop invariant alone is not a refutation: need a concrete failing input from a companion
            if comp_cex:
                o["status"] = "violated"
                o["note"] = "loop invariant not preserved; concrete failing input found by companion harness"
            else:
                o["status"] = "undecided"
                o["reason"] = "loop invariant not preserved and no concrete failing input found"
        if o["status"] == "undecided":
            undecided.append("%s: %s" % (o["name"], o.get("reason", "")))
    for o in obligations:
        if o["status"] != "violated":
            continue
        kf = None
        for k in known:
            if k.get("obligation") == o["name"]:
                kf = k
        if kf:
            known_lines.append("KNOWN-FINDING: property=%s obligation=%s %s" % (pid, o["name"], kf.get("what", kf["_line"])))
            o["status"] = "known-finding"
            continue
        rp = os.path.join(REPLAY, "%s-%s.json" % (pid, re.sub(r"[^A-Za-z0-9_.-]", "_", o["name"])))
        have_input = bool(o.get("cex") and o["cex"].get("values")) or (o["lane"] in ("V", "L") and bool(comp_cex))
        rec = {"property": pid, "obligation": o["name"], "lane": o["lane"], "formula": o.get("formula"),
               "repo_rev": repo_rev(), "tier": a.tier}
        if o["lane"] in ("V", "L"):
            rec["verifier_output"] = o.get("errors")
            rec["verus_stderr"] = P["_verus"][o["name"].split(":")[1]]["stderr"]
            if comp_cex:
                rec["failing_input_from"] = [c["name"] for c in comp_cex]
                rec["cex"] = [c.get("cex") for c in comp_cex]
        else:
            rec["failed_checks"] = o.get("failed_checks")
            rec["cex"] = o.get("cex")
            rec["harness"] = o.get("harness")
        with open(rp, "w") as fh:
            json.dump(rec, fh, indent=1)
        o["replay"] = rp
        viol_lines.append("VIOLATION property=%s replay=%s%s" % (pid, rp, "" if have_input else " no-failing-input-found"))
        violated.append(o)

    # ---------------- evidence ----------------
    complete = [o for o in obligations if o["lane"] in ("V", "L", "K") and o["status"] != "known-finding"]
    bounded = [o for o in obligations if o["lane"] == "Kb"]
    n_ob = len(complete)
    n_dis = len([o for o in complete if o["status"] == "discharged"])
    assumptions = list(P.get("assumptions", []))
    trusted = list(P.get("trusted_base", [])) + [
        "Verus 0.2026.09.13 + Z3; Kani 0.68 + CBMC 6.11 + CaDiCaL",
        "extractor/overlay scripts in /verif/pipeline (output saved under evidence/generated with a diff against the real text)",
        "no-op `tracing` stand-in in Kani builds (tracing arguments not evaluated)",
    ]
    for uname, res in P.get("_verus", {}).items():
        for h in res.get("assumption_scan", []):
            assumptions.append("verus unit %s: %s" % (uname, h))
    from .scan import scan_overlay
    for h in scan_overlay(P):
        assumptions.append(h)
    samples = []
    for o in obligations[:60]:
        samples.append({"obligation": o["name"], "lane": o["lane"], "status": o["status"],
                        "formula": o.get("formula") or o.get("function"), "bound": o.get("bound"),
                        "solver_s": o.get("solver_s")})
    ev = {
        "property_id": pid,
        "tier": a.tier,
        "seed": seed,
        "level": "proof",
        "coverage": {
            "obligations": n_ob,
            "discharged": n_dis,
            "checker_cmd": "verus <generated unit>.rs --output-json --time ; cargo kani -p <crate> %s --harness <h>" % " ".join(kani.KANI_FLAGS),
            "trusted_base": trusted,
            "samples": samples,
            "functions_under_contract": sorted(set(
                [f for o in obligations for f in (o.get("functions") or [])] +
                [(o.get("source") or "") + "::" + o["function"] for o in obligations if o.get("function") and o["lane"] == "V" and o.get("real")])),
            "verified_helpers": sorted(set(o["function"] for o in obligations if o.get("function") and o["lane"] == "V" and not o.get("real"))),
            "bounded": [{"obligation": o["name"], "bound": o.get("bound"), "status": o["status"],
                         "solver_s": o.get("solver_s")} for o in bounded],
            "known_findings": known_lines,
            "undecided": undecided,
            "solver_time_s": round(sum((o.get("solver_s") or 0) for o in obligations), 2),
            "scope_claimed": P.get("scope", ""),
            "clauses_not_decided": P.get("not_decided", []),
            "repo_rev": repo_rev(),
            "explanation": "obligations/discharged count lanes V (Verus on extracted real code), L (Verus lemmas over spec "
                           "functions) and K (Kani, complete over the full input domain); lane Kb (bounded) is listed "
                           "under `bounded` and never counted as proved.",
        },
        "assumptions": assumptions,
        "wall_s": round(time.time() - t0, 1),
        "violations": len(violated),
    }
    os.makedirs(EVID, exist_ok=True)
    with open(os.path.join(EVID, pid + ".json"), "w") as fh:
        json.dump(ev, fh, indent=1)

    for l in known_lines:
        print(l)
    for o in obligations:
        print("  [%s] %-12s %s %s" % (o["lane"], o["status"], o["name"],
                                     ("(%.1fs)" % o["solver_s"]) if o.get("solver_s") else ""))
    if violated:
        for l in viol_lines:
            print(l)
        return 1
    if undecided:
        for u in undecided:
            print("UNDECIDED: %s" % u, file=sys.stderr)
        return 2
    if n_ob == 0 or n_dis != n_ob:
        print("UNDECIDED: obligations=%d discharged=%d" % (n_ob, n_dis), file=sys.stderr)
        return 2
    print("OK property=%s tier=%s obligations=%d discharged=%d bounded=%d wall=%.0fs" % (
        pid, a.tier, n_ob, n_dis, len(bounded), time.time() - t0))
    return 0


if __name__ == "__main__":
    sys.exit(main())
