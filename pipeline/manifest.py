"""Regenerate /verif/MANIFEST.json from the registry (run after editing units.py)."""
import json
import os

from .scratch import VERIF
from .units import PROPS, NOT_APPLICABLE

ALL = ["C%02d" % i for i in range(1, 21)]


def main():
    checks = []
    for pid in ALL:
        if pid not in PROPS:
            continue
        P = PROPS[pid]
        checks.append({
            "property_id": pid,
            "quick_cmd": "./check %s --tier quick" % pid,
            "thorough_cmd": "./check %s --tier thorough" % pid,
            "evidence_file": "/verif/evidence/%s.json" % pid,
            "replay_cmd_template": "./check %s --replay {path}" % pid,
            "engine": "contracts",
            "level_claimed": {
                "category": "proof",
                "text": P["scope"],
                "design_ref": "DESIGN.md §3 " + pid,
            },
            "level_note": P.get("level_note", "") or "; ".join(P.get("assumptions", [])) or "see evidence.assumptions",
            "technique": P.get("technique", "contract-based deductive verification: Verus on mechanically extracted functions + Kani contracts/harnesses on the real crate"),
        })
    na = []
    for pid in ALL:
        if pid not in PROPS:
            na.append({"property_id": pid, "reason": NOT_APPLICABLE.get(pid, "not built yet")})
    for pid in ALL:
        if pid in PROPS and PROPS[pid].get("not_decided"):
            na.append({"property_id": pid, "reason": "claimed in part; clauses not decided by this technique: " +
                       " | ".join(PROPS[pid]["not_decided"])})
    m = {
        "version": 1,
        "setup_cmd": "./setup.sh",
        "hooks": {
            "guard": "kani",
            "enable": "none in /repo: contracts and #[cfg(kani)] harness modules live in /verif/overlay and are appended to a scratch copy of the working tree on every run (cfg(kani) is set by cargo kani only)",
            "baseline_off_cmd": "cd /repo && cargo test --workspace --no-fail-fast --offline",
            "source_commits": [],
            "add_only": True,
        },
        "engines": [{
            "name": "contracts",
            "path": "/verif/check",
            "serves_properties": [c["property_id"] for c in checks],
            "kind_free_text": "Verus 0.2026.09.13 on functions extracted mechanically from /repo on every run (lane V) and on "
                              "spec-level lemmas (lane L); Kani 0.68 harnesses/contracts compiled into the real crates in a "
                              "scratch copy (lane K complete, lane Kb bounded stand-in)",
        }],
        "checks": checks,
        "not_applicable": na,
        "notes": "exit 0 discharged / exit 1 VIOLATION / exit 2 undecided (never an alarm). Known findings: /verif/KNOWN_FINDINGS.txt.",
    }
    with open(os.path.join(VERIF, "MANIFEST.json"), "w") as fh:
        json.dump(m, fh, indent=1)
    print("MANIFEST.json: %d checks, %d not_applicable entries" % (len(checks), len(na)))


if __name__ == "__main__":
    main()
