M=/var/tmp/barrier_mut; rm -rf $M; mkdir -p $M/shuttle-std/src/sync; F=shuttle-std/src/sync/barrier.rs
cd /verif
run(){ python3 -m pipeline.vdev barrier $M 2>&1 | grep -E "^unit|ERR|AnchorLost" | cut -c1-150; }
m(){ cp /repo/$F $M/$F; echo "== $1"; python3 - "$2" "$3" <<'E'
import sys
p='/var/tmp/barrier_mut/shuttle-std/src/sync/barrier.rs'
s=open(p).read()
assert sys.argv[1] in s, "pattern not found"
s=s.replace(sys.argv[1], sys.argv[2],1)
open(p,'w').write(s)
E
run; }
cp /repo/$F $M/$F; (cd $M && patch -p1 -s < /verif/seeded/C02-barrier-will-block-off-by-one/patch.diff); echo "== seed C02 will_block off by one"; run
m "will_block = len+2<bound (extra switch: harmless for C02? no: pre-switch taken though blocking)" "state.waiters.len() + 1 < state.bound" "state.waiters.len() + 2 < state.bound"
m "release when len <= bound" "if state.waiters.len() < state.bound {" "if state.waiters.len() <= state.bound {"
m "epoch not bumped" "            state.epoch += 1;
" ""
m "token for next epoch" "assert!(state.leader_tokens.insert(my_epoch));" "assert!(state.leader_tokens.insert(my_epoch + 1));"
m "no unblock" "                    t.unblock();
" ""
m "clock update dropped for released" "                    t.clock.update(&clock);
" ""
m "leader token not removed (peek)" "leader_tokens.remove(&my_epoch)" "leader_tokens.contains(&my_epoch)"
m "block after switch" "            ExecutionState::with(|s| s.current_mut().block(false));
            thread::switch();" "            thread::switch();
            ExecutionState::with(|s| s.current_mut().block(false));"
m "barrier clock not updated by arrival" "                state.clock.update(clock);" "                let _ = clock;"
m "my_epoch read after bump" "        let my_epoch = state.epoch;
" "        let my_epoch = state.epoch + 0;
"
rm -rf $M
