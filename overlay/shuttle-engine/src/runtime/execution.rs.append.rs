// ---- cfg(kani) twins of the three lazily initialised thread-locals (see execution.rs.rules) ----
#[cfg(kani)]
pub struct KaniTls<T: 'static> {
    cell: std::cell::UnsafeCell<Option<T>>,
    init: fn() -> T,
}
#[cfg(kani)]
unsafe impl<T> Sync for KaniTls<T> {}
#[cfg(kani)]
impl<T> KaniTls<T> {
    pub const fn new(init: fn() -> T) -> Self {
        Self { cell: std::cell::UnsafeCell::new(None), init }
    }
    pub fn with<F, R>(&'static self, f: F) -> R
    where
        F: FnOnce(&T) -> R,
    {
        // single verification thread: plain lazy initialisation
        let slot = unsafe { &mut *self.cell.get() };
        if slot.is_none() {
            *slot = Some((self.init)());
        }
        f(slot.as_ref().unwrap())
    }
    pub fn try_with<F, R>(&'static self, f: F) -> Result<R, std::thread::AccessError>
    where
        F: FnOnce(&T) -> R,
    {
        Ok(self.with(f))
    }
}
#[cfg(kani)]
static CURRENT_SCHEDULE: KaniTls<CurrentSchedule> = KaniTls::new(CurrentSchedule::default);
#[cfg(kani)]
#[allow(deprecated)]
pub static TASK_ID_TO_TAGS: KaniTls<RefCell<HashMap<TaskId, Arc<dyn Tag>>>> =
    KaniTls::new(|| RefCell::new(HashMap::with_hasher(crate::verif_support::fixed_random_state())));
#[cfg(kani)]
pub static LABELS: KaniTls<RefCell<HashMap<TaskId, Labels>>> =
    KaniTls::new(|| RefCell::new(HashMap::with_hasher(crate::verif_support::fixed_random_state())));

#[cfg(kani)]
impl CurrentSchedule {
    pub fn verif_last_step() -> Option<crate::scheduler::ScheduleStep> {
        CURRENT_SCHEDULE.with(|cs| cs.current_schedule.borrow().steps.last().cloned())
    }
}

/// (cfg(kani)) what `Execution::run` does to the recorded schedule when an execution begins
#[cfg(kani)]
pub(crate) fn verif_begin_execution(initial: Schedule) {
    CurrentSchedule::init(initial);
}
/// An empty schedule whose `steps` vector already has room: Vec growth makes CBMC explore the allocation-failure
/// path (handle_alloc_error prints to stderr through the formatting machinery), which costs minutes.
#[cfg(kani)]
pub(crate) fn verif_roomy_schedule(seed: u64) -> Schedule {
    Schedule { seed, steps: Vec::with_capacity(8) }
}
#[cfg(kani)]
pub(crate) fn verif_push_step(random: bool, t: TaskId) {
    if random { CurrentSchedule::push_random() } else { CurrentSchedule::push_task(t) }
}

#[cfg(kani)]
pub mod verif_exec {
    //! Contracts on ExecutionState: schedule(), advance_to_next_task(), next_u64(), step bound, live_tasks.
    use super::*;
    use crate::runtime::task::TaskState;
    use crate::scheduler::ScheduleStep;

    pub const N: usize = 3;
    /// typed storage for the tasks of one harness (a plain array local to the harness, never dropped)
    pub type TaskStore = std::mem::ManuallyDrop<[Task; N]>;
    pub fn new_store() -> TaskStore {
        std::mem::ManuallyDrop::new([
            Task::verif_dummy(0, TaskState::Finished, false),
            Task::verif_dummy(1, TaskState::Finished, false),
            Task::verif_dummy(2, TaskState::Finished, false),
        ])
    }
    static mut VERIF_STORE: *mut Task = std::ptr::null_mut();
    /// must be called first by every harness that uses any_state*: `let mut store = new_store(); use_store(&mut store);`
    pub fn use_store(store: &mut TaskStore) {
        unsafe { VERIF_STORE = store.as_mut_ptr() };
    }

    /// A scheduler that records how it was called (the "checking scheduler" of DESIGN.md C08).
    #[derive(Debug)]
    pub struct SpecSched {
        pub calls: usize,
        pub n_offered: usize,
        pub offered: [usize; N],
        pub current: Option<TaskId>,
        pub is_yielding: bool,
        pub pick_none: bool,
        pub pick: usize,
        pub u64_calls: usize,
        pub u64_value: u64,
        pub schedule_len_at_u64: usize,
        pub ne_calls: usize,
        pub ne_seed: Option<u64>,
    }
    impl SpecSched {
        pub fn new() -> Self {
            SpecSched { calls: 0, n_offered: 0, offered: [usize::MAX; N], current: None, is_yielding: false,
                        pick_none: kani::any(), pick: kani::any(), u64_calls: 0, u64_value: kani::any(),
                        schedule_len_at_u64: 0, ne_calls: 0, ne_seed: kani::any() }
        }
    }
    impl Scheduler for SpecSched {
        fn new_execution(&mut self) -> Option<Schedule> {
            self.ne_calls += 1;
            self.ne_seed.map(Schedule::new)
        }
        fn next_task(&mut self, runnable: &[&Task], current: Option<TaskId>, is_yielding: bool) -> Option<TaskId> {
            self.calls += 1;
            self.n_offered = runnable.len();
            let mut i = 0;
            while i < runnable.len() && i < N {
                self.offered[i] = runnable[i].id().0;
                i += 1;
            }
            self.current = current;
            self.is_yielding = is_yielding;
            if self.pick_none || runnable.is_empty() {
                None
            } else {
                Some(runnable[self.pick % runnable.len()].id())
            }
        }
        fn next_u64(&mut self) -> u64 {
            self.u64_calls += 1;
            self.schedule_len_at_u64 = CurrentSchedule::len();
            self.u64_value
        }
    }

    impl SpecSched {
        /// what the inner scheduler answers for `n` offered tasks with ids 0..n
        pub fn expected_choice(&self, n: usize) -> Option<TaskId> {
            if self.pick_none || n == 0 { None } else { Some(TaskId(self.pick % n)) }
        }
        /// the inner scheduler saw exactly this call, once
        pub fn saw_call(&self, n: usize, current: Option<TaskId>, is_yielding: bool) -> bool {
            let mut ok = self.calls == 1 && self.n_offered == n && self.current == current && self.is_yielding == is_yielding;
            let mut i = 0;
            while i < N {
                ok = ok && self.offered[i] == (if i < n { i } else { usize::MAX });
                i += 1;
            }
            ok
        }
    }

    pub fn any_current() -> Option<TaskId> {
        if kani::any() { Some(TaskId(kani::any::<usize>() % N)) } else { None }
    }

    /// Transparency contract shared by every scheduler wrapper (C08): the wrapper `w` around a SpecSched passes
    /// next_task / next_u64 / new_execution through exactly once with identical arguments and returns the inner answer.
    pub fn check_transparent<W: Scheduler>(w: &mut W, inner: fn(&W) -> &SpecSched) {
        let store = new_store();
        let refs: [&Task; N] = [&store[0], &store[1], &store[2]];
        let n: usize = kani::any();
        kani::assume(n >= 1 && n <= N);
        let cur = any_current();
        let y: bool = kani::any();
        let r = w.next_task(&refs[..n], cur, y);
        assert!(inner(w).saw_call(n, cur, y));
        assert!(r == inner(w).expected_choice(n));
        let v = w.next_u64();
        assert!(inner(w).u64_calls == 1 && v == inner(w).u64_value);
        let ne = w.new_execution();
        assert!(inner(w).ne_calls == 1);
        assert!(ne.as_ref().map(|s| s.seed) == inner(w).ne_seed);
        assert!(ne.as_ref().map(|s| s.steps.len()).unwrap_or(0) == 0);
        assert!(inner(w).calls == 1 && inner(w).u64_calls == 1);
        kani::cover!(r.is_some() && ne.is_some());
        kani::cover!(r.is_none());
        std::mem::forget(ne);
    }

    /// C08.wrap.box_dyn [K]
    #[kani::proof]
    #[kani::unwind(5)]
    fn c08_wrap_box_dyn_transparent() {
        // Box<dyn Scheduler + Send> forwards to the boxed scheduler; observed through a raw pointer to the inner SpecSched
        let raw: *mut SpecSched = Box::into_raw(Box::new(SpecSched::new()));
        let mut b: Box<dyn Scheduler + Send> = unsafe { Box::from_raw(raw) };
        let store = new_store();
        let refs: [&Task; N] = [&store[0], &store[1], &store[2]];
        let n: usize = kani::any();
        kani::assume(n >= 1 && n <= N);
        let cur = any_current();
        let y: bool = kani::any();
        let r = Scheduler::next_task(&mut b, &refs[..n], cur, y);
        let v = Scheduler::next_u64(&mut b);
        let ne = Scheduler::new_execution(&mut b);
        let inner: &SpecSched = unsafe { &*raw };
        assert!(inner.saw_call(n, cur, y) && r == inner.expected_choice(n));
        assert!(inner.u64_calls == 1 && v == inner.u64_value);
        assert!(inner.ne_calls == 1 && ne.as_ref().map(|s| s.seed) == inner.ne_seed);
        kani::cover!(r.is_some());
        std::mem::forget(ne);
        std::mem::forget(b);
    }

    /// An ExecutionState with N tasks in the given (concrete or symbolic) states, `current` running.
    pub fn state_with(states: [TaskState; N], current: usize, sched: Rc<RefCell<SpecSched>>) -> ExecutionState {
        let mut cfg = Config::new();
        cfg.max_steps = MaxSteps::None;
        let mut st = ExecutionState::new(cfg, sched);
        let buf: *mut Task = unsafe { VERIF_STORE };
        assert!(!buf.is_null());
        let mut live: Vec<TaskId> = Vec::with_capacity(DEFAULT_INLINE_TASKS);
        let mut i = 0;
        while i < N {
            unsafe { (*buf.add(i)).verif_reset(states[i], false) };
            if states[i] != TaskState::Finished {
                live.push(TaskId(i));
            }
            i += 1;
        }
        let old_live = std::mem::replace(&mut st.live_tasks, live);
        std::mem::forget(old_live);
        unsafe { std::ptr::write(&mut st.tasks, SmallVec::from_raw_parts(buf, N, DEFAULT_INLINE_TASKS + 1)) };
        st.current_task = ScheduledTask::Some(TaskId(current));
        st
    }

    /// Run `f` with `st` installed as the current execution state; returns the state for inspection (never dropped).
    pub fn run_in<R>(st: ExecutionState, f: impl FnOnce() -> R) -> (R, std::mem::ManuallyDrop<RefCell<ExecutionState>>) {
        let cell = std::mem::ManuallyDrop::new(RefCell::new(st));
        let r = EXECUTION_STATE.set(&cell, f);
        (r, cell)
    }

    pub fn task_state(cell: &RefCell<ExecutionState>, i: usize) -> TaskState {
        cell.borrow().tasks[i].verif_state()
    }

    /// (token_available, blocked_in_park) of task i
    pub fn task_park(cell: &RefCell<ExecutionState>, i: usize) -> (bool, bool) {
        cell.borrow().tasks[i].verif_park()
    }

    pub fn yield_requested(cell: &RefCell<ExecutionState>) -> bool {
        cell.borrow().has_yielded
    }

    pub fn set_task_waiter(st: &mut ExecutionState, i: usize, waiter: Option<usize>) {
        st.tasks[i].verif_set(false, false, false, waiter);
    }

    pub fn set_task_park(st: &mut ExecutionState, i: usize, token_available: bool, blocked_in_park: bool) {
        st.tasks[i].verif_set(false, token_available, blocked_in_park, None);
    }

    pub fn any_max_steps() -> MaxSteps {
        match kani::any::<u8>() % 3 {
            0 => MaxSteps::None,
            1 => MaxSteps::FailAfter(kani::any()),
            _ => MaxSteps::ContinueAfter(kani::any()),
        }
    }

    /// An ExecutionState with `n` (<= N) tasks whose `state`/`detached` are arbitrary, satisfying the structure
    /// invariant `live_tasks == ascending ids of unfinished tasks` (SmallVec in heap mode: the inline
    /// `[Task; 16]` representation exhausts CBMC's memory).
    pub fn any_state(n: usize, sched: Rc<RefCell<SpecSched>>) -> (ExecutionState, [TaskState; N], [bool; N]) {
        any_state_pattern(n, [false; N], false, sched)
    }

    pub fn any_live_state() -> TaskState {
        match kani::any::<u8>() % 4 {
            0 => TaskState::Runnable,
            1 => TaskState::Blocked { allow_spurious_wakeups: false },
            2 => TaskState::Blocked { allow_spurious_wakeups: true },
            _ => TaskState::Sleeping,
        }
    }

    /// `finished[i]` (concrete) fixes which slots hold finished tasks, so that `live_tasks` -- and with it every index
    /// into `tasks` -- is concrete; with `concrete_liveness == false` liveness is symbolic too (much more expensive).
    pub fn any_state_pattern(n: usize, finished: [bool; N], concrete_liveness: bool, sched: Rc<RefCell<SpecSched>>) -> (ExecutionState, [TaskState; N], [bool; N]) {
        let mut cfg = Config::new();
        cfg.max_steps = MaxSteps::None;
        let mut st = ExecutionState::new(cfg, sched);
        // The task array is allocated and filled by hand: any `Vec<Task>` / `SmallVec<[Task; _]>` value that goes out
        // of scope makes Task's drop glue (Backtrace, coroutine teardown, ...) statically reachable, which costs
        // minutes of CBMC preprocessing per harness. Capacity > inline capacity keeps the SmallVec in heap mode.
        let cap = DEFAULT_INLINE_TASKS + 1;
        // A *typed* static object holds the tasks: memory from the allocator is an untyped byte array for CBMC, and
        // every struct write/read through it is bit-blasted byte by byte (9M variables for two tasks). Only `n` slots
        // are initialised; the claimed capacity (> inline capacity => heap mode) is never exercised because these
        // harnesses never push into `tasks` and never free it.
        let buf: *mut Task = unsafe { VERIF_STORE };
        assert!(!buf.is_null());
        let mut states = [TaskState::Finished; N];
        let mut det = [false; N];
        let mut live: Vec<TaskId> = Vec::with_capacity(DEFAULT_INLINE_TASKS);
        let mut i = 0;
        while i < n {
            let s: TaskState = if !concrete_liveness { kani::any() } else if finished[i] { TaskState::Finished } else { any_live_state() };
            let d: bool = kani::any();
            states[i] = s;
            det[i] = d;
            unsafe { (*buf.add(i)).verif_reset(s, d) };
            if s != TaskState::Finished {
                live.push(TaskId(i));
            }
            i += 1;
        }
        // assigned once, by direct field assignment (every write *through a pointer* into the ExecutionState makes
        // CBMC copy the whole object, which embeds the 16-task inline buffer of the SmallVec union)
        let old_live = std::mem::replace(&mut st.live_tasks, live);
        std::mem::forget(old_live);
        unsafe { std::ptr::write(&mut st.tasks, SmallVec::from_raw_parts(buf, n, cap)) };
        (st, states, det)
    }

    fn forget(st: ExecutionState) {
        std::mem::forget(st);
    }

    /// C03/C08.exec.schedule  [Kb: <= 3 tasks]  (see the registry for the formula)
    #[kani::proof]
    #[kani::solver(minisat)]
    #[kani::stub(std::hash::RandomState::new, crate::verif_support::fixed_random_state)]
    #[kani::stub(crate::backtrace_enabled, crate::verif_support::stub_false)]
    #[kani::unwind(5)]
    fn c08_exec_schedule_2live() {
        schedule_contract(2, [false; N]);
    }

    /// same contract, 3 live tasks
    #[kani::proof]
    #[kani::solver(minisat)]
    #[kani::stub(std::hash::RandomState::new, crate::verif_support::fixed_random_state)]
    #[kani::stub(crate::backtrace_enabled, crate::verif_support::stub_false)]
    #[kani::unwind(5)]
    fn c08_exec_schedule_3live() {
        schedule_contract(3, [false; N]);
    }

    /// same contract, a finished task among the slots (ids are not contiguous in live_tasks)
    #[kani::proof]
    #[kani::solver(minisat)]
    #[kani::stub(std::hash::RandomState::new, crate::verif_support::fixed_random_state)]
    #[kani::stub(crate::backtrace_enabled, crate::verif_support::stub_false)]
    #[kani::unwind(5)]
    fn c08_exec_schedule_with_finished() {
        schedule_contract(3, [true, false, false]);
    }

    fn schedule_contract(n: usize, finished: [bool; N]) {
        let mut store = new_store();
        use_store(&mut store);
        let sched = Rc::new(RefCell::new(SpecSched::new()));
        let (mut st, states, det) = any_state_pattern(n, finished, true, sched.clone());
        // arbitrary history
        let cur: usize = kani::any();
        st.current_task = if kani::any() { kani::assume(cur < n); ScheduledTask::Some(TaskId(cur)) } else { ScheduledTask::None };
        let yielded: bool = kani::any();
        st.has_yielded = yielded;
        let cs0: usize = kani::any();
        kani::assume(cs0 < usize::MAX);
        st.context_switches = cs0;

        // ---- spec-side computation from the snapshot ----
        let mut any_runnable = false;
        let mut unfinished_attached = false;
        let mut all_runnable_detached = true;
        let mut exp: [usize; N] = [usize::MAX; N];
        let mut n_exp = 0;
        let mut i = 0;
        while i < n {
            let s = states[i];
            if s != TaskState::Finished && !det[i] {
                unfinished_attached = true;
            }
            if s == TaskState::Runnable {
                any_runnable = true;
                if !det[i] {
                    all_runnable_detached = false;
                }
            }
            if s == TaskState::Runnable || s == (TaskState::Blocked { allow_spurious_wakeups: true }) {
                exp[n_exp] = i;
                n_exp += 1;
            }
            i += 1;
        }
        let finished_expected = !any_runnable || (!unfinished_attached && all_runnable_detached);

        let r = st.schedule();
        let r_ok = r.is_ok();
        std::mem::forget(r); // never drop a StepError: Box<dyn Any + Send> drop glue fans out over the whole program
        assert!(r_ok);
        assert!(st.context_switches == cs0 + 1);
        let sc = sched.borrow();
        if finished_expected {
            // verdict "finished" <=> no task can make progress, or only detached ones can and no attached task is left;
            // spuriously wakeable tasks do not count; the scheduler is not consulted
            assert!(st.next_task == ScheduledTask::Finished);
            assert!(sc.calls == 0);
            assert!(st.has_yielded == yielded);
            let mut k = 0;
            while k < n {
                assert!(st.tasks[k].verif_state() == states[k]);
                k += 1;
            }
        } else {
            assert!(sc.calls == 1);
            assert!(st.runnable_tasks.is_empty()); // no reference to a task outlives the decision
            // offered list: non-empty, strictly ascending ids, exactly runnable + spuriously wakeable, all unfinished
            assert!(sc.n_offered == n_exp && n_exp >= 1);
            let mut k = 0;
            while k < N {
                assert!(sc.offered[k] == exp[k]);
                k += 1;
            }
            assert!(sc.current == (if let ScheduledTask::Some(t) = st.current_task { Some(t) } else { None }));
            // yielding flag is passed exactly once
            assert!(sc.is_yielding == yielded && !st.has_yielded);
            if sc.pick_none {
                assert!(st.next_task == ScheduledTask::Stopped);
                let mut k = 0;
                while k < n {
                    assert!(st.tasks[k].verif_state() == states[k]);
                    k += 1;
                }
            } else {
                let chosen = exp[sc.pick % n_exp];
                assert!(st.next_task == ScheduledTask::Some(TaskId(chosen)));
                let mut k = 0;
                while k < n {
                    if k == chosen {
                        // a chosen spuriously-woken task is made runnable
                        assert!(st.tasks[k].verif_state() == TaskState::Runnable);
                    } else {
                        assert!(st.tasks[k].verif_state() == states[k]);
                    }
                    k += 1;
                }
            }
        }
        kani::cover!(finished_expected && any_runnable);
        kani::cover!(!finished_expected && n_exp >= 2);
        kani::cover!(!finished_expected && sc.pick_none);
        drop(sc);
        forget(st);
    }

    /// C08.exec.schedule_once  [K]: a decision already taken (next_task != None) is not taken again.
    #[kani::proof]
    #[kani::solver(minisat)]
    #[kani::stub(std::hash::RandomState::new, crate::verif_support::fixed_random_state)]
    #[kani::stub(crate::backtrace_enabled, crate::verif_support::stub_false)]
    #[kani::unwind(5)]
    fn c08_exec_schedule_once() {
        let mut store = new_store();
        use_store(&mut store);
        let sched = Rc::new(RefCell::new(SpecSched::new()));
        let (mut st, _states, _det) = any_state(2, sched.clone());
        let nt = match kani::any::<u8>() % 3 {
            0 => ScheduledTask::Some(TaskId(kani::any::<usize>() % 2)),
            1 => ScheduledTask::Stopped,
            _ => ScheduledTask::Finished,
        };
        st.next_task = nt;
        st.config.max_steps = any_max_steps();
        let cs0 = st.context_switches;
        let r = st.schedule();
        let r_ok = r.is_ok();
        std::mem::forget(r);
        assert!(r_ok && st.next_task == nt && sched.borrow().calls == 0 && st.context_switches == cs0);
        kani::cover!(true);
        forget(st);
    }

    /// C13.exec.step_bound  [K: all (len, reset_at, n) with reset_at <= len; schedule length via the real CurrentSchedule]
    #[kani::proof]
    #[kani::solver(minisat)]
    #[kani::stub(std::hash::RandomState::new, crate::verif_support::fixed_random_state)]
    #[kani::stub(crate::backtrace_enabled, crate::verif_support::stub_false)]
    #[kani::unwind(5)]
    fn c13_exec_step_bound() {
        let mut store = new_store();
        use_store(&mut store);
        let sched = Rc::new(RefCell::new(SpecSched::new()));
        let (mut st, _states, _det) = any_state(1, sched.clone());
        // schedule of length len in {0,1,2}: the comparison is on len - reset_at, so small lengths with arbitrary
        // bound n cover every relation (<, ==, >) between steps taken and the bound
        let len: usize = kani::any();
        kani::assume(len <= 2);
        CurrentSchedule::init(verif_roomy_schedule(0));
        let mut i = 0;
        while i < len {
            if kani::any() { CurrentSchedule::push_random(); } else { CurrentSchedule::push_task(TaskId(0)); }
            i += 1;
        }
        assert!(CurrentSchedule::len() == len);
        let reset_at: usize = kani::any();
        kani::assume(reset_at <= len); // inv_steps
        st.steps_reset_at = reset_at;
        let ms = any_max_steps();
        st.config.max_steps = ms;
        let steps = len - reset_at;
        let r = st.schedule();
        let r_ok = r.is_ok();
        let r_bound = matches!(r, Err(StepError::StepBoundExceeded));
        std::mem::forget(r);
        match ms {
            MaxSteps::FailAfter(b) if steps >= b => {
                assert!(r_bound);
                assert!(sched.borrow().calls == 0 && st.next_task == ScheduledTask::None);
            }
            MaxSteps::ContinueAfter(b) if steps >= b => {
                assert!(r_ok && st.next_task == ScheduledTask::Stopped && sched.borrow().calls == 0);
            }
            _ => {
                // under the bound (or no bound): the decision proceeds normally
                assert!(r_ok);
                assert!(st.next_task != ScheduledTask::None);
                assert!(matches!(st.next_task, ScheduledTask::Finished) || sched.borrow().calls == 1);
            }
        }
        kani::cover!(matches!(ms, MaxSteps::FailAfter(b) if steps == b));
        kani::cover!(matches!(ms, MaxSteps::ContinueAfter(b) if steps + 1 == b));
        forget(st);
    }

    /// C13.exec.step_error_persist  [K]: StepBoundExceeded under ContinueAfter is the one failure not persisted.
    #[kani::proof]
    #[kani::solver(minisat)]
    #[kani::stub(std::hash::RandomState::new, crate::verif_support::fixed_random_state)]
    #[kani::stub(crate::backtrace_enabled, crate::verif_support::stub_false)]
    #[kani::unwind(5)]
    fn c13_exec_step_error_is_silent_only_for_continue_after() {
        // structural: evaluate the guard of StepError::persist_failure
        let ms = any_max_steps();
        let which: u8 = kani::any::<u8>() % 4;
        let e = match which {
            0 => StepError::SchedulingError,
            1 => StepError::Deadlock,
            2 => StepError::StepBoundExceeded,
            _ => StepError::TaskPanicEarlyReturn,
        };
        let silent = matches!(e, StepError::StepBoundExceeded) && matches!(ms, MaxSteps::ContinueAfter(_));
        let persisted = verif_would_persist(&e, ms);
        std::mem::forget(e);
        assert!(persisted == !silent);
        kani::cover!(silent);
    }

    /// mirror of the guard in `StepError::persist_failure` is NOT used: we call the real method with a config whose
    /// persistence is None-equivalent observable through a counter. See failure.rs overlay (PERSIST_CALLS).
    fn verif_would_persist(e: &StepError, ms: MaxSteps) -> bool {
        let mut cfg = Config::new();
        cfg.max_steps = ms;
        cfg.failure_persistence = crate::FailurePersistence::None;
        // persist_failure(config) leaves SCHEDULE_PERSISTED_AT == CurrentSchedule::len(); use that as the call witness
        CurrentSchedule::init(verif_roomy_schedule(0));
        crate::runtime::failure::verif_set_persisted_at(usize::MAX);
        e.persist_failure(&cfg);
        crate::runtime::failure::verif_persisted_at() == CurrentSchedule::len()
    }

    /// C01.exec.advance_records  [K]: every decision is appended exactly once, including "same task continues".
    #[kani::proof]
    #[kani::solver(minisat)]
    #[kani::stub(std::hash::RandomState::new, crate::verif_support::fixed_random_state)]
    #[kani::stub(crate::backtrace_enabled, crate::verif_support::stub_false)]
    #[kani::unwind(5)]
    fn c01_exec_advance_records() {
        let mut store = new_store();
        use_store(&mut store);
        let sched = Rc::new(RefCell::new(SpecSched::new()));
        let (mut st, _s, _d) = any_state(2, sched.clone());
        CurrentSchedule::init(verif_roomy_schedule(kani::any()));
        let pre: usize = kani::any();
        kani::assume(pre <= 1);
        if pre == 1 { CurrentSchedule::push_random(); }
        let cur = match kani::any::<u8>() % 3 { 0 => ScheduledTask::None, 1 => ScheduledTask::Some(TaskId(0)), _ => ScheduledTask::Some(TaskId(1)) };
        st.current_task = cur;
        let nt = match kani::any::<u8>() % 4 {
            0 => ScheduledTask::Some(TaskId(0)),
            1 => ScheduledTask::Some(TaskId(1)),
            2 => ScheduledTask::Stopped,
            _ => ScheduledTask::Finished,
        };
        st.next_task = nt; // requires next_task != None
        st.advance_to_next_task();
        assert!(st.current_task == nt && st.next_task == ScheduledTask::None);
        if let ScheduledTask::Some(t) = nt {
            assert!(CurrentSchedule::len() == pre + 1);
            assert!(CurrentSchedule::verif_last_step() == Some(ScheduleStep::Task(t)));
        } else {
            assert!(CurrentSchedule::len() == pre);
        }
        kani::cover!(cur == nt && matches!(nt, ScheduledTask::Some(_))); // same task continues: still recorded
        forget(st);
    }

    /// C01.exec.next_u64_records_before_serving  [K]
    #[kani::proof]
    #[kani::solver(minisat)]
    #[kani::stub(std::hash::RandomState::new, crate::verif_support::fixed_random_state)]
    #[kani::stub(crate::backtrace_enabled, crate::verif_support::stub_false)]
    #[kani::unwind(5)]
    fn c01_exec_next_u64() {
        let mut store = new_store();
        use_store(&mut store);
        let sched = Rc::new(RefCell::new(SpecSched::new()));
        let (st, _s, _d) = any_state(1, sched.clone());
        CurrentSchedule::init(verif_roomy_schedule(kani::any()));
        let pre: usize = kani::any();
        kani::assume(pre <= 1);
        if pre == 1 { CurrentSchedule::push_task(TaskId(0)); }
        let cell = RefCell::new(st);
        let v = EXECUTION_STATE.set(&cell, || ExecutionState::next_u64());
        let sc = sched.borrow();
        assert!(sc.u64_calls == 1 && v == sc.u64_value);
        assert!(CurrentSchedule::len() == pre + 1);
        assert!(CurrentSchedule::verif_last_step() == Some(ScheduleStep::Random));
        // the marker is appended BEFORE the value is obtained from the scheduler
        assert!(sc.schedule_len_at_u64 == pre + 1);
        kani::cover!(pre == 1);
        drop(sc);
        std::mem::forget(cell);
    }

    /// C14.exec.new_is_fresh  [K]: a new ExecutionState has no tasks, zero counters, no current/next task.
    #[kani::proof]
    #[kani::solver(minisat)]
    #[kani::stub(std::hash::RandomState::new, crate::verif_support::fixed_random_state)]
    #[kani::stub(crate::backtrace_enabled, crate::verif_support::stub_false)]
    #[kani::unwind(5)]
    fn c14_exec_new_is_fresh() {
        let mut store = new_store();
        use_store(&mut store);
        let sched = Rc::new(RefCell::new(SpecSched::new()));
        let mut cfg = Config::new();
        cfg.max_steps = any_max_steps();
        let st = ExecutionState::new(cfg, sched);
        assert!(st.tasks.is_empty() && st.live_tasks.is_empty() && st.runnable_tasks.is_empty());
        assert!(st.current_task == ScheduledTask::None && st.next_task == ScheduledTask::None);
        assert!(!st.has_yielded && st.context_switches == 0 && st.steps_reset_at == 0 && !st.in_cleanup);
        assert!(st.storage.verif_is_empty());
        // CurrentSchedule::init replaces (does not append to) the recorded schedule
        CurrentSchedule::init(verif_roomy_schedule(1));
        CurrentSchedule::push_random();
        let seed: u64 = kani::any();
        CurrentSchedule::init(verif_roomy_schedule(seed));
        assert!(CurrentSchedule::len() == 0 && CurrentSchedule::get_schedule().seed == seed);
        kani::cover!(true);
        forget(st);
    }

    /// C03.exec.live_tasks  [Kb <= 3 tasks]: add_task / finish_task keep live_tasks == ascending ids of unfinished tasks.
    #[kani::proof]
    #[kani::solver(minisat)]
    #[kani::stub(std::hash::RandomState::new, crate::verif_support::fixed_random_state)]
    #[kani::stub(crate::backtrace_enabled, crate::verif_support::stub_false)]
    #[kani::unwind(5)]
    fn c03_exec_live_tasks() {
        let mut store = new_store();
        use_store(&mut store);
        let sched = Rc::new(RefCell::new(SpecSched::new()));
        let n: usize = 2;
        let (mut st, states, _d) = any_state(n, sched);
        // add_task: ids are handed out as tasks.len()
        let id = st.tasks.len();
        st.add_task(Task::verif_dummy(id, TaskState::Runnable, kani::any()));
        assert!(st.tasks.len() == n + 1 && st.tasks[n].id() == TaskId(n));
        assert!(*st.live_tasks.last().unwrap() == TaskId(n));
        // finish some unfinished task
        let f: usize = kani::any();
        kani::assume(f <= n);
        kani::assume(f == n || states[f] != TaskState::Finished);
        st.finish_task(TaskId(f));
        assert!(st.tasks[f].finished());
        // invariant: live_tasks is exactly the ascending list of unfinished ids
        let mut k = 0;
        let mut j = 0;
        while k <= n {
            if !st.tasks[k].finished() {
                assert!(j < st.live_tasks.len() && st.live_tasks[j] == TaskId(k));
                j += 1;
            }
            k += 1;
        }
        assert!(j == st.live_tasks.len());
        kani::cover!(n == 2 && f == 0);
        forget(st);
    }

    /// C03.exec.deadlock_predicate [Kb <= 3 tasks]: run_to_completion's verdict on `Finished`:
    /// deadlock <=> some attached task is unfinished. Evaluated on the harness' task vector with the real iterator code
    /// (the predicate is inlined in run_to_completion, which cannot run without coroutines).
    #[kani::proof]
    #[kani::solver(minisat)]
    #[kani::stub(std::hash::RandomState::new, crate::verif_support::fixed_random_state)]
    #[kani::stub(crate::backtrace_enabled, crate::verif_support::stub_false)]
    #[kani::unwind(5)]
    fn c02_exec_exit_truncates() {
        let mut store = new_store();
        use_store(&mut store);
        let sched = Rc::new(RefCell::new(SpecSched::new()));
        let n: usize = N;
        let (mut st, states, det) = any_state(n, sched);
        let cur: usize = kani::any();
        kani::assume(cur < n && states[cur] == TaskState::Runnable);
        st.current_task = ScheduledTask::Some(TaskId(cur));
        let r = st.exit_current_truncates_execution();
        // spec
        let mut unfinished_attached = 0;
        let mut unfinished_detached = 0;
        let mut k = 0;
        while k < n {
            if states[k] != TaskState::Finished {
                if det[k] { unfinished_detached += 1; } else { unfinished_attached += 1; }
            }
            k += 1;
        }
        let expect = cur == 0 || (!det[cur] && unfinished_attached == 1 && unfinished_detached >= 1);
        assert!(r == expect);
        kani::cover!(cur != 0 && expect);
        kani::cover!(cur != 0 && !expect);
        forget(st);
    }

    /// C08.exec.request_yield [K]: sets the flag and nothing else.
    #[kani::proof]
    #[kani::solver(minisat)]
    #[kani::stub(std::hash::RandomState::new, crate::verif_support::fixed_random_state)]
    #[kani::stub(crate::backtrace_enabled, crate::verif_support::stub_false)]
    #[kani::unwind(5)]
    fn c08_exec_request_yield() {
        let mut store = new_store();
        use_store(&mut store);
        let sched = Rc::new(RefCell::new(SpecSched::new()));
        let (mut st, states, _d) = any_state(1, sched.clone());
        st.has_yielded = kani::any();
        let cs = st.context_switches;
        let cell = RefCell::new(st);
        EXECUTION_STATE.set(&cell, || ExecutionState::request_yield());
        let st = cell.borrow();
        assert!(st.has_yielded && st.context_switches == cs && st.next_task == ScheduledTask::None);
        assert!(st.tasks[0].verif_state() == states[0] && sched.borrow().calls == 0);
        kani::cover!(true);
        drop(st);
        std::mem::forget(cell);
    }
}
