#[cfg(kani)]
mod verif_atomic_int {
    //! C04: every public operation of the shuttle integer atomics agrees with std's atomic of the same type
    //! (result and final value) from every start value and operands, and is preceded by exactly one choice point.
    use super::*;
    use crate::sync::atomic::Atomic;
    use crate::sync::{ResourceSignature, ResourceType};
    use shuttle_engine::runtime::execution::verif_exec::{new_store, run_in, state_with, use_store, SpecSched};
    use shuttle_engine::runtime::task::TaskState;
    use shuttle_engine::verif_support::{fixed_random_state, stub_false, switches, verif_switch};
    use std::cell::RefCell;
    use std::rc::Rc;
    use std::sync::atomic::Ordering::SeqCst;

    const SIG: ResourceSignature = ResourceSignature::new_const(ResourceType::Atomic);
    const BLOCKED: TaskState = TaskState::Blocked { allow_spurious_wakeups: false };

    macro_rules! differential {
        ($harness:ident, $shuttle:ident, $std:ty, $t:ty) => {
            #[kani::proof]
            #[kani::solver(minisat)]
            #[kani::unwind(5)]
            #[kani::stub(shuttle_engine::runtime::thread::continuation::switch, verif_switch)]
            #[kani::stub(std::hash::RandomState::new, fixed_random_state)]
            #[kani::stub(shuttle_engine::backtrace_enabled, stub_false)]
            fn $harness() {
                let mut store = new_store();
                use_store(&mut store);
                let st = state_with([TaskState::Runnable, BLOCKED, BLOCKED], 0, Rc::new(RefCell::new(SpecSched::new())));
                let v0: $t = kani::any();
                let a: $t = kani::any();
                let b: $t = kani::any();
                let op: u8 = kani::any();
                kani::assume(op < 13);
                let x = $shuttle { inner: Atomic { inner: RefCell::new(v0), clock: RefCell::new(None), signature: SIG } };
                let y = <$std>::new(v0);
                // results are encoded as (is_ok, value) so that every operation has the same shape
                let (rx, _cell) = run_in(st, || match op {
                    0 => (true, x.load(SeqCst)),
                    1 => { x.store(a, SeqCst); (true, a) }
                    2 => (true, x.swap(a, SeqCst)),
                    3 => match x.compare_exchange(a, b, SeqCst, SeqCst) { Ok(v) => (true, v), Err(v) => (false, v) },
                    4 => (true, x.fetch_add(a, SeqCst)),
                    5 => (true, x.fetch_sub(a, SeqCst)),
                    6 => (true, x.fetch_and(a, SeqCst)),
                    7 => (true, x.fetch_nand(a, SeqCst)),
                    8 => (true, x.fetch_or(a, SeqCst)),
                    9 => (true, x.fetch_xor(a, SeqCst)),
                    10 => (true, x.fetch_max(a, SeqCst)),
                    11 => (true, x.fetch_min(a, SeqCst)),
                    _ => match x.fetch_update(SeqCst, SeqCst, |o| if o == a { None } else { Some(o.wrapping_add(b)) }) { Ok(v) => (true, v), Err(v) => (false, v) },
                });
                let ry = match op {
                    0 => (true, y.load(SeqCst)),
                    1 => { y.store(a, SeqCst); (true, a) }
                    2 => (true, y.swap(a, SeqCst)),
                    3 => match y.compare_exchange(a, b, SeqCst, SeqCst) { Ok(v) => (true, v), Err(v) => (false, v) },
                    4 => (true, y.fetch_add(a, SeqCst)),
                    5 => (true, y.fetch_sub(a, SeqCst)),
                    6 => (true, y.fetch_and(a, SeqCst)),
                    7 => (true, y.fetch_nand(a, SeqCst)),
                    8 => (true, y.fetch_or(a, SeqCst)),
                    9 => (true, y.fetch_xor(a, SeqCst)),
                    10 => (true, y.fetch_max(a, SeqCst)),
                    11 => (true, y.fetch_min(a, SeqCst)),
                    _ => match y.fetch_update(SeqCst, SeqCst, |o| if o == a { None } else { Some(o.wrapping_add(b)) }) { Ok(v) => (true, v), Err(v) => (false, v) },
                };
                assert!(rx == ry);
                assert!(unsafe { x.raw_load() } == y.load(SeqCst));
                assert!(switches() == 1);
                kani::cover!(op == 3 && rx.0);
                kani::cover!(op == 12 && !rx.0);
                std::mem::forget(x);
            }
        };
    }

    differential!(c04_atomic_u8_agrees_with_std, AtomicU8, std::sync::atomic::AtomicU8, u8);
    differential!(c04_atomic_i16_agrees_with_std, AtomicI16, std::sync::atomic::AtomicI16, i16);
    differential!(c04_atomic_u32_agrees_with_std, AtomicU32, std::sync::atomic::AtomicU32, u32);
    differential!(c04_atomic_i64_agrees_with_std, AtomicI64, std::sync::atomic::AtomicI64, i64);
    differential!(c04_atomic_usize_agrees_with_std, AtomicUsize, std::sync::atomic::AtomicUsize, usize);
}
