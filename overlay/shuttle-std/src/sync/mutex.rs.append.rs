#[cfg(kani)]
impl<T: ?Sized> Mutex<T> {
    /// (cfg(kani)) observers / preparation for contracts in sibling modules
    pub(crate) fn verif_holder(&self) -> Option<TaskId> {
        self.state.borrow().holder
    }
    pub(crate) fn verif_permits(&self) -> usize {
        self.semaphore.available_permits()
    }
    pub(crate) fn verif_prepare_free(&self) {
        self.semaphore.verif_take(0);
    }
}

#[cfg(kani)]
mod verif_mutex {
    //! C04: Mutex segments on the real semaphore. inv_M: holder.is_some() <=> no permit available.
    use super::*;
    use shuttle_engine::runtime::execution::verif_exec::{new_store, run_in, state_with, task_state, use_store, SpecSched};
    use shuttle_engine::runtime::task::TaskState;
    use shuttle_engine::verif_support::{fixed_random_state, stub_false, switches, verif_switch};
    use std::rc::Rc;

    const SIG: ResourceSignature = ResourceSignature::new_const(ResourceType::Mutex);
    const BLOCKED: TaskState = TaskState::Blocked { allow_spurious_wakeups: false };

    /// a mutex in a state satisfying inv_M: free, or held by task `holder` (its permit taken)
    fn mk_mutex(holder: Option<usize>) -> Mutex<u8> {
        let m = Mutex::new_internal(7u8, SIG);
        if let Some(h) = holder {
            m.state.borrow_mut().holder = Some(TaskId::from(h));
            m.semaphore.verif_take_all();
        } else {
            m.semaphore.verif_take(0); // free: the permit queue exists and has room (see verif_take)
        }
        m
    }

    /// C04.mutex.try_lock [K: free / held by another task]: Ok <=> the lock is free; then holder == me and no permit is
    /// left; Err(WouldBlock) leaves holder and permits unchanged. Exactly one choice point.
    #[kani::proof]
    #[kani::solver(minisat)]
    #[kani::unwind(5)]
    #[kani::stub(shuttle_engine::runtime::thread::continuation::switch, verif_switch)]
    #[kani::stub(std::hash::RandomState::new, fixed_random_state)]
    #[kani::stub(shuttle_engine::backtrace_enabled, stub_false)]
    fn c04_mutex_try_lock_free() {
        try_lock_contract(false);
    }

    #[kani::proof]
    #[kani::solver(minisat)]
    #[kani::unwind(5)]
    #[kani::stub(shuttle_engine::runtime::thread::continuation::switch, verif_switch)]
    #[kani::stub(std::hash::RandomState::new, fixed_random_state)]
    #[kani::stub(shuttle_engine::backtrace_enabled, stub_false)]
    fn c04_mutex_try_lock_held() {
        try_lock_contract(true);
    }

    fn try_lock_contract(held: bool) {
        let mut store = new_store();
        use_store(&mut store);
        let st = state_with([TaskState::Runnable, TaskState::Runnable, BLOCKED], 0, Rc::new(RefCell::new(SpecSched::new())));
        let m = mk_mutex(if held { Some(1) } else { None });
        let (r, _cell) = run_in(st, || m.try_lock());
        assert!(switches() == 1);
        match &r {
            Ok(g) => {
                assert!(!held);
                assert!(**g == 7);
                assert!(m.state.borrow().holder == Some(TaskId::from(0)));
                assert!(m.semaphore.available_permits() == 0);
            }
            Err(TryLockError::WouldBlock) => {
                assert!(held);
                assert!(m.state.borrow().holder == Some(TaskId::from(1)));
                assert!(m.semaphore.available_permits() == 0);
            }
            Err(TryLockError::Poisoned(_)) => assert!(false),
        }
        kani::cover!(true);
        std::mem::forget(r);
        std::mem::forget(m);
    }

    /// C04.mutex.unlock [K]: dropping the guard gives the permit back, clears the holder, releases the inner std lock and
    /// makes a queued waiter runnable. One choice point (in release), before the effect.
    #[kani::proof]
    #[kani::solver(minisat)]
    #[kani::unwind(5)]
    #[kani::stub(shuttle_engine::runtime::thread::continuation::switch, verif_switch)]
    #[kani::stub(std::hash::RandomState::new, fixed_random_state)]
    #[kani::stub(shuttle_engine::backtrace_enabled, stub_false)]
    fn c04_mutex_unlock_no_waiter() {
        unlock_contract(false);
    }

    #[kani::proof]
    #[kani::solver(minisat)]
    #[kani::unwind(5)]
    #[kani::stub(shuttle_engine::runtime::thread::continuation::switch, verif_switch)]
    #[kani::stub(std::hash::RandomState::new, fixed_random_state)]
    #[kani::stub(shuttle_engine::backtrace_enabled, stub_false)]
    fn c04_mutex_unlock_wakes_waiter() {
        unlock_contract(true);
    }

    fn unlock_contract(waiting: bool) {
        let mut store = new_store();
        use_store(&mut store);
        let st = state_with([TaskState::Runnable, BLOCKED, BLOCKED], 0, Rc::new(RefCell::new(SpecSched::new())));
        let m = mk_mutex(Some(0));
        if waiting {
            m.semaphore.verif_enqueue(1, 1);
        }
        let g = MutexGuard { inner: Some(m.inner.try_lock().unwrap()), mutex: &m };
        let ((), cell) = run_in(st, || drop(g));
        assert!(switches() == 1);
        assert!(m.state.borrow().holder.is_none());
        assert!(m.semaphore.available_permits() == 1);
        assert!(m.inner.try_lock().is_ok()); // inner lock is free again
        assert!(task_state(&cell, 1) == if waiting { TaskState::Runnable } else { BLOCKED });
        assert!(task_state(&cell, 2) == BLOCKED);
        kani::cover!(true);
        std::mem::forget(m);
    }

    /// C04.mutex.lock_uncontended [K]: lock() on a free mutex returns the guard with holder == me after exactly one choice
    /// point; the re-entrancy assertion and `unreachable!("mutex state out of sync")` are dead under inv_M.
    #[kani::proof]
    #[kani::solver(minisat)]
    #[kani::unwind(5)]
    #[kani::stub(shuttle_engine::runtime::thread::continuation::switch, verif_switch)]
    #[kani::stub(std::hash::RandomState::new, fixed_random_state)]
    #[kani::stub(shuttle_engine::backtrace_enabled, stub_false)]
    fn c04_mutex_lock_uncontended() {
        let mut store = new_store();
        use_store(&mut store);
        let st = state_with([TaskState::Runnable, TaskState::Runnable, BLOCKED], 0, Rc::new(RefCell::new(SpecSched::new())));
        let m = mk_mutex(None);
        let (r, cell) = run_in(st, || m.lock());
        assert!(r.is_ok());
        assert!(switches() == 1);
        assert!(m.state.borrow().holder == Some(TaskId::from(0)) && m.semaphore.available_permits() == 0);
        assert!(m.inner.try_lock().is_err()); // the inner std lock is held by the guard
        assert!(task_state(&cell, 0) == TaskState::Runnable);
        kani::cover!(true);
        std::mem::forget(r);
        std::mem::forget(m);
    }
}
