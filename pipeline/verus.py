"""Lane V / L: Verus on functions extracted mechanically from /repo's working tree (DESIGN.md §2.3).

A unit (verus/units/<name>.py) names the source file, the items to extract, the generic adapter rules
to apply to the extracted text, and the specification text to splice:
  * `requires`/`ensures`/`decreases` between a function's signature and its body,
  * `invariant`/`decreases` at the n-th loop of the function body.
The generated file and a unified diff (real text -> verified text) are written next to the evidence.
"""
import difflib
import importlib.util
import json
import os
import re
import subprocess
import time

from .scratch import REPO, VERIF, AnchorLost, FN_RE, _strip_strings

GEN_DIR = os.path.join(VERIF, "evidence", "generated")


def load_unit(name):
    path = os.path.join(VERIF, "verus", "units", name + ".py")
    spec = importlib.util.spec_from_file_location("verus_unit_" + name, path)
    mod = importlib.util.module_from_spec(spec)
    spec.loader.exec_module(mod)
    return mod.UNIT


def _match_block(lines, start):
    """Given line index `start` where an item header begins, return index of the line holding the
    closing brace of the item's block (brace matching, ignoring strings/comments)."""
    depth = 0
    seen = False
    j = start
    while j < len(lines):
        for ch in _strip_strings(lines[j]):
            if ch == '{':
                depth += 1
                seen = True
            elif ch == '}':
                depth -= 1
        if seen and depth <= 0:
            return j
        j += 1
    raise AnchorLost("unbalanced braces from line %d" % (start + 1))


def _find_container(lines, regex, nth, lo, hi, what):
    rx = re.compile(regex)
    hits = [i for i in range(lo, hi) if rx.search(lines[i])]
    if len(hits) < nth:
        raise AnchorLost("%s /%s/ not found" % (what, regex))
    i = hits[nth - 1]
    return i, _match_block(lines, i) + 1


def extract_item(src_text, item):
    """Returns (text, first_line_no). item keys: containers=[(regex,nth)...], fn=<name> | header=<regex>."""
    lines = src_text.split("\n")
    lo, hi = 0, len(lines)
    for (rx, nth) in item.get("containers", []):
        lo, hi = _find_container(lines, rx, nth, lo, hi, "container")
        lo += 0
    if "fn" in item:
        rx = re.compile(FN_RE % re.escape(item["fn"]))
        hits = [i for i in range(lo, hi) if rx.search(lines[i])]
        nth = item.get("nth", 1)
        if len(hits) < nth:
            raise AnchorLost("fn %s not found in %s" % (item["fn"], item.get("containers")))
        i = hits[nth - 1]
    else:
        i, _ = _find_container(lines, item["header"], item.get("nth", 1), lo, hi, "item") if not item.get("line_item") else (None, None)
        if item.get("line_item"):
            rx = re.compile(item["header"])
            hits = [k for k in range(lo, hi) if rx.search(lines[k])]
            if not hits:
                raise AnchorLost("line item /%s/ not found" % item["header"])
            return lines[hits[0]], hits[0] + 1
    j = _match_block(lines, i)
    text = "\n".join(lines[i:j + 1])
    return text, i + 1


def _dedent(text):
    ls = text.split("\n")
    ind = min((len(l) - len(l.lstrip()) for l in ls if l.strip()), default=0)
    return "\n".join(l[ind:] for l in ls)


def split_sig_body(fn_text):
    """split at the first '{' at paren/bracket depth 0"""
    depth = 0
    for k, ch in enumerate(fn_text):
        if ch in "([":
            depth += 1
        elif ch in ")]":
            depth -= 1
        elif ch == "{" and depth == 0:
            return fn_text[:k].rstrip(), fn_text[k:]
    raise AnchorLost("no body")


LOOP_RE = re.compile(r'(?m)^(\s*)(?:\'\w+:\s*)?(for|while|loop)\b')


def splice_loops(body, loop_specs, fn_name):
    """Insert loop_specs[k] before the '{' that opens the k-th loop (in textual order)."""
    if not loop_specs:
        return body
    out = []
    pos = 0
    k = 0
    for m in LOOP_RE.finditer(body):
        if m.start() < pos:
            continue
        # find the '{' that opens the loop body: first '{' at paren depth 0 after keyword, skipping closures'
        depth = 0
        idx = m.end()
        while idx < len(body):
            ch = body[idx]
            if ch in "([":
                depth += 1
            elif ch in ")]":
                depth -= 1
            elif ch == "{" and depth == 0:
                break
            idx += 1
        if idx >= len(body):
            raise AnchorLost("loop %d of %s: no body" % (k, fn_name))
        spec = loop_specs[k] if k < len(loop_specs) else None
        if spec:
            out.append(body[pos:idx].rstrip())
            out.append("\n" + m.group(1) + "    " + spec.strip().replace("\n", "\n" + m.group(1) + "    ") + "\n" + m.group(1))
            pos = idx
        k += 1
    if k != len(loop_specs):
        raise AnchorLost("fn %s: expected %d loops, found %d" % (fn_name, len(loop_specs), k))
    out.append(body[pos:])
    return "".join(out)


def apply_rewrites(text, rewrites, log, where):
    """Rules may belong to a `group`: alternatives for the same site (e.g. the checked and the unchecked spelling of an
    access); at least one rule of each group must fire, otherwise the anchor is lost."""
    groups = {}
    for rw in rewrites:
        if "macro" in rw:
            # replace every invocation `name!( ...balanced... )` by rw["replace"]
            out, pos, n = [], 0, 0
            pat = rw["macro"] + "!("
            while True:
                k = text.find(pat, pos)
                if k < 0:
                    break
                depth, j = 0, k + len(pat) - 1
                while j < len(text):
                    if text[j] == "(":
                        depth += 1
                    elif text[j] == ")":
                        depth -= 1
                        if depth == 0:
                            break
                    j += 1
                out.append(text[pos:k] + rw["replace"])
                pos = j + 1
                n += 1
            out.append(text[pos:])
            text = "".join(out)
            log.append({"rule": rw["id"], "where": where, "fired": n})
            if n < rw.get("min", 0):
                raise AnchorLost("adapter rule %s did not fire in %s" % (rw["id"], where))
            continue
        flags = re.M | re.S if rw.get("dotall") else re.M
        if rw.get("replace") is None:
            n = len(re.findall(rw["pattern"], text, flags=flags))
            new = text
        else:
            new, n = re.subn(rw["pattern"], rw["replace"], text, flags=flags)
        log.append({"rule": rw["id"], "where": where, "fired": n})
        if "group" in rw:
            groups[rw["group"]] = groups.get(rw["group"], 0) + n
        elif n < rw.get("min", 0):
            raise AnchorLost("adapter rule %s did not fire in %s (expected >= %d)" % (rw["id"], where, rw["min"]))
        text = new
    for g, n in groups.items():
        if n < 1:
            raise AnchorLost("no adapter rule of group %s fired in %s" % (g, where))
    return text


def generate(unit, repo=REPO):
    src_path = os.path.join(repo, unit["source"])
    if not os.path.exists(src_path):
        raise AnchorLost("source %s missing" % unit["source"])
    with open(src_path) as fh:
        src = fh.read()
    parts = []
    rewrite_log = []
    diff_chunks = []
    fns = []
    for item in unit["items"]:
        raw, line_no = extract_item(src, item)
        raw = _dedent(raw)
        text = raw
        name = item.get("fn") or item.get("name")
        text = apply_rewrites(text, unit.get("rewrites", []) + item.get("rewrites", []), rewrite_log, name)
        if "fn" in item:
            sig, body = split_sig_body(text)
            if item.get("sig_rewrite"):
                for (a, b) in item["sig_rewrite"]:
                    if not re.search(a, sig):
                        raise AnchorLost("signature of %s changed: /%s/ not found" % (name, a))
                    sig = re.sub(a, b, sig)
            body = splice_loops(body, item.get("loops", []), name)
            # ghost-only proof hints, inserted before the first body line matching a regex
            for (rx, hint) in item.get("hints", []):
                bl = body.split("\n")
                hit = [k for k, l in enumerate(bl) if re.search(rx, l)]
                if len(hit) != 1:
                    raise AnchorLost("hint anchor /%s/ in %s: %d hits" % (rx, name, len(hit)))
                ind = re.match(r"\s*", bl[hit[0]]).group(0)
                bl[hit[0]:hit[0]] = [ind + h for h in hint.strip().split("\n")]
                body = "\n".join(bl)
            spec = item.get("spec", "").strip()
            text = sig + ("\n    " + spec.replace("\n", "\n    ") if spec else "") + "\n" + body
            fns.append(name)
        pre = item.get("wrap_pre", "")
        post = item.get("wrap_post", "")
        parts.append("// ---- extracted from %s:%d (%s) ----\n%s%s%s" % (unit["source"], line_no, name, pre, text, post))
        diff_chunks.append("".join(difflib.unified_diff(
            raw.splitlines(True), text.splitlines(True),
            "%s:%d %s (real)" % (unit["source"], line_no, name), "verified text", n=2)))
    gen = unit["prelude"] + "\n" + "\n\n".join(parts) + "\n" + unit.get("epilogue", "") + "\n"
    return gen, "\n".join(diff_chunks), rewrite_log, fns


ERR_RE = re.compile(r'^error(?:\[[A-Z0-9]+\])?: (.*)$')
LOC_RE = re.compile(r'^\s*--> ([^:]+):(\d+):(\d+)')

# message classes
VIOLATION_MSGS = (
    "postcondition not satisfied", "precondition not satisfied", "assertion failed",
    "possible arithmetic underflow/overflow", "possible division by zero", "possible bit shift",
    "unreachable", "assertion failure",
)
INVARIANT_MSGS = ("invariant not satisfied",)
RESOURCE_MSGS = ("Resource limit", "rlimit", "could not prove termination", "decreases not satisfied",
                 "decreases might not")


def run_verus(path, timeout_s=600, extra=()):
    cmd = ["verus", path, "--output-json", "--time", "--triggers-mode", "silent"] + list(extra)
    t0 = time.time()
    try:
        p = subprocess.run(cmd, stdout=subprocess.PIPE, stderr=subprocess.PIPE, text=True, timeout=timeout_s,
                           cwd=os.path.dirname(path))
        out, err = p.stdout, p.stderr
    except subprocess.TimeoutExpired:
        return {"ok": False, "errors": [{"msg": "verus timeout", "cls": "resource", "line": 0}], "functions": [],
                "wall_s": timeout_s, "cmd": " ".join(cmd), "stderr": "", "verified": 0, "n_errors": 1}
    wall = time.time() - t0
    js = None
    try:
        js = json.loads(out[out.index("{"):])
    except Exception:
        pass
    errors = []
    lines = err.split("\n")
    for i, l in enumerate(lines):
        m = ERR_RE.match(l)
        if m:
            msg = m.group(1)
            if msg.startswith("aborting due to") or "previous error" in msg:
                continue
            loc = None
            for l2 in lines[i + 1:i + 4]:
                lm = LOC_RE.match(l2)
                if lm:
                    loc = (lm.group(1), int(lm.group(2)))
                    break
            if any(k in msg for k in INVARIANT_MSGS):
                cls = "invariant"
            elif any(k in msg for k in RESOURCE_MSGS):
                cls = "resource"
            elif any(k in msg for k in VIOLATION_MSGS):
                cls = "violation"
            else:
                cls = "tool"  # type error, unsupported construct, parse error ...
            errors.append({"msg": msg, "cls": cls, "line": loc[1] if loc else 0})
    functions = []
    verified = n_errors = 0
    smt_ms = 0
    if js:
        vr = js.get("verification-results", {})
        verified = vr.get("verified", 0)
        n_errors = vr.get("errors", 0)
        try:
            for mod in js["times-ms"]["smt"]["smt-run-module-times"]:
                for f in mod.get("function-breakdown", []):
                    functions.append({"function": f["function"], "mode": f.get("mode:", f.get("mode")),
                                      "ok": f["success"], "smt_ms": f["time"], "rlimit": f.get("rlimit")})
            smt_ms = js["times-ms"]["smt"]["total"]
        except Exception:
            pass
    ok = bool(js) and js.get("verification-results", {}).get("success", False) and not errors
    return {"ok": ok, "errors": errors, "functions": functions, "wall_s": round(wall, 2), "cmd": " ".join(cmd),
            "stderr": err[-6000:], "verified": verified, "n_errors": n_errors, "smt_ms": smt_ms}


def line_to_fn(gen_text, line_no):
    """name of the fn enclosing generated-file line `line_no` (nearest preceding fn header)."""
    lines = gen_text.split("\n")
    rx = re.compile(r'\b(?:proof\s+|spec\s+|exec\s+)?fn\s+(\w+)')
    for i in range(min(line_no, len(lines)) - 1, -1, -1):
        m = rx.search(lines[i])
        if m and not lines[i].lstrip().startswith("//"):
            return m.group(1)
    return "?"


def check_unit(name, repo=REPO, outdir=GEN_DIR):
    unit = load_unit(name)
    gen, diff, rwlog, fns = generate(unit, repo)
    os.makedirs(outdir, exist_ok=True)
    path = os.path.join(outdir, "verus_%s.rs" % name)
    with open(path, "w") as fh:
        fh.write(gen)
    with open(os.path.join(outdir, "verus_%s.diff" % name), "w") as fh:
        fh.write(diff)
    res = run_verus(path, unit.get("timeout_s", 600))
    for e in res["errors"]:
        e["fn"] = line_to_fn(gen, e["line"]) if e["line"] else "?"
    # vacuity canary: with --cfg verif_canary the unit contains one deliberately false lemma that must be rejected
    if "verif_canary" in gen:
        c = run_verus(path, unit.get("timeout_s", 600), extra=["--cfg", "verif_canary"])
        bad = [e for e in c["errors"] if line_to_fn(gen, e["line"]) == "canary_false"]
        res["canary_rejected"] = (not c["ok"]) and len(bad) >= 1
    else:
        res["canary_rejected"] = None
    res["unit"] = name
    res["generated"] = path
    res["rewrites"] = rwlog
    res["extracted_fns"] = fns
    res["assumption_scan"] = scan_assumptions(gen)
    return res, unit


def scan_assumptions(text):
    hits = []
    for i, l in enumerate(text.split("\n")):
        s = l.strip()
        if s.startswith("//"):
            continue
        for kw in ("assume(", "admit(", "external_body", "assume_specification", "#[verifier::external",
                   "unsafe ", "axiom"):
            if kw in l:
                hits.append("line %d: %s" % (i + 1, s[:140]))
                break
    return hits
