#[cfg(kani)]
mod verif_runner {
    use super::*;
    use crate::runtime::execution::verif_exec::{check_transparent, new_store, SpecSched, N};

    /// C08.wrap.portfolio_transparent [K]: with the stop flag clear the wrapper is transparent
    #[kani::proof]
    #[kani::unwind(5)]
    fn c08_wrap_portfolio_transparent() {
        let mut w = PortfolioStoppableScheduler { scheduler: SpecSched::new(), stop_signal: Arc::new(AtomicBool::new(false)) };
        check_transparent(&mut w, |w| &w.scheduler);
        std::mem::forget(w);
    }

    /// C12/C08.wrap.portfolio_stops [K]: with the stop flag set no further decision or execution is started
    #[kani::proof]
    #[kani::unwind(5)]
    fn c08_wrap_portfolio_stops() {
        let mut w = PortfolioStoppableScheduler { scheduler: SpecSched::new(), stop_signal: Arc::new(AtomicBool::new(true)) };
        let store = new_store();
        let refs: [&Task; N] = [&store[0], &store[1], &store[2]];
        assert!(w.next_task(&refs[..2], None, kani::any()).is_none());
        assert!(w.new_execution().is_none());
        assert!(w.scheduler.calls == 0 && w.scheduler.ne_calls == 0);
        kani::cover!(true);
        std::mem::forget(w);
    }
}
