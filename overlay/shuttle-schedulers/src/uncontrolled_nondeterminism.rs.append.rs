#[cfg(kani)]
mod verif_und {
    use super::*;
    use shuttle_engine::runtime::execution::verif_exec::{any_current, new_store, SpecSched, N};

    /// C08.wrap.und_recording_transparent [K]: while recording, decisions and draws pass through unchanged and
    /// exactly one record per call is appended (offered ids, choice, yield flag / value).
    #[kani::proof]
    #[kani::unwind(5)]
    fn c08_wrap_und_recording_transparent() {
        let mut w = UncontrolledNondeterminismCheckScheduler::new(SpecSched::new());
        w.previous_schedule = Vec::with_capacity(4);
        w.recording = true;
        let store = new_store();
        let refs: [&Task; N] = [&store[0], &store[1], &store[2]];
        let n: usize = kani::any();
        kani::assume(n >= 1 && n <= N);
        let cur = any_current();
        let y: bool = kani::any();
        let r = w.next_task(&refs[..n], cur, y);
        assert!(w.scheduler.saw_call(n, cur, y) && r == w.scheduler.expected_choice(n));
        assert!(w.previous_schedule.len() == 1);
        match &w.previous_schedule[0] {
            ScheduleRecord::Task(c, ids, wy) => {
                assert!(*c == r && *wy == y && ids.len() == n);
                let k: usize = kani::any();
                kani::assume(k < n);
                assert!(ids[k] == TaskId::from(k));
            }
            _ => assert!(false),
        }
        let v = w.next_u64();
        assert!(w.scheduler.u64_calls == 1 && v == w.scheduler.u64_value);
        assert!(w.previous_schedule.len() == 2 && w.previous_schedule[1] == ScheduleRecord::Random(v));
        kani::cover!(r.is_some());
        std::mem::forget(w);
    }

    /// C01.und.check_accepts_identical [K]: in checking mode a call identical to the recorded one returns the recorded
    /// answer without consulting the inner scheduler and advances the cursor by one.
    #[kani::proof]
    #[kani::unwind(5)]
    fn c01_und_check_accepts_identical() {
        let mut w = UncontrolledNondeterminismCheckScheduler::new(SpecSched::new());
        w.previous_schedule = Vec::with_capacity(4);
        w.recording = true;
        let store = new_store();
        let refs: [&Task; N] = [&store[0], &store[1], &store[2]];
        let n: usize = kani::any();
        kani::assume(n >= 1 && n <= N);
        let cur = any_current();
        let y: bool = kani::any();
        let r1 = w.next_task(&refs[..n], cur, y);
        let v1 = w.next_u64();
        // second pass over the same execution (what new_execution toggles)
        w.recording = false;
        w.current_step = 0;
        let cur2 = any_current(); // `current` is not compared: it is determined by the previous answers
        let r2 = w.next_task(&refs[..n], cur2, y);
        let v2 = w.next_u64();
        assert!(r2 == r1 && v2 == v1);
        assert!(w.current_step == 2);
        assert!(w.scheduler.calls == 1 && w.scheduler.u64_calls == 1); // inner not consulted again
        kani::cover!(r1.is_some());
        std::mem::forget(w);
    }

    /// C01.und.check_rejects_different_offer [K, should_panic]: a different offered set is rejected (panic).
    #[kani::proof]
    #[kani::unwind(5)]
    #[kani::should_panic]
    fn c01_und_check_rejects_different_offer() {
        let mut w = UncontrolledNondeterminismCheckScheduler::new(SpecSched::new());
        w.previous_schedule = Vec::with_capacity(4);
        w.recording = true;
        let store = new_store();
        let refs: [&Task; N] = [&store[0], &store[1], &store[2]];
        let _ = w.next_task(&refs[..2], None, false);
        w.recording = false;
        w.current_step = 0;
        let _ = w.next_task(&refs[..3], None, false);
    }

    /// C01.und.new_execution_alternates [K]: record, then check, then record...; the inner scheduler is asked for a new
    /// execution only when a recording starts, and a checking pass that ended early is rejected.
    #[kani::proof]
    #[kani::unwind(5)]
    fn c01_und_new_execution_alternates() {
        let mut w = UncontrolledNondeterminismCheckScheduler::new(SpecSched::new());
        w.previous_schedule = Vec::with_capacity(4);
        let a = w.new_execution();
        assert!(w.recording && w.scheduler.ne_calls == 1 && w.current_step == 0);
        assert!(a.as_ref().map(|s| s.seed) == w.scheduler.ne_seed);
        let b = w.new_execution();
        assert!(!w.recording && w.scheduler.ne_calls == 1 && b.is_some());
        kani::cover!(a.is_some());
        std::mem::forget(a);
        std::mem::forget(b);
        std::mem::forget(w);
    }
}
