#!/bin/bash
# Run the registered check of each seeded mutant's property against a patched copy of /repo.
# usage: tools_seed_matrix.sh <seed-name>...   (default: all under /verif/seeded)
# Each run uses a private copy of /verif (so evidence/ in /verif is not touched), a private patched copy of /repo
# and a private build cache; everything is removed afterwards. Results are appended to /verif/seeded/RESULTS.txt.
set -u
cd /verif
seeds="$@"; [ -z "$seeds" ] && seeds=$(ls seeded | grep -v RESULTS)
for s in $seeds; do
  d=/verif/seeded/$s
  [ -f $d/meta.json ] || continue
  prop=$(python3 -c "import json;print(json.load(open('$d/meta.json'))['property'])")
  work=/var/tmp/seedrun_$s
  rm -rf $work; mkdir -p $work
  rsync -a --exclude target --exclude .git /repo/ $work/repo/
  (cd $work/repo && git init -q . 2>/dev/null; patch -p1 -s < $d/patch.diff) || { echo "$s $prop PATCH-FAILED" >> seeded/RESULTS.txt; continue; }
  rsync -a --exclude .git --exclude logs --exclude replay /verif/ $work/verif/
  t0=$(date +%s)
  (cd $work/verif && VERIF_REPO=$work/repo VERIF_CACHE=$work/cache timeout 5400 ./check $prop --tier ${TIER:-quick} > $work/out.txt 2>&1; echo "exit=$?" >> $work/out.txt)
  t1=$(date +%s)
  ex=$(grep -o "exit=[0-9]*" $work/out.txt | tail -1)
  viol=$(grep -c "^VIOLATION" $work/out.txt)
  which=$(grep -E "violated" $work/out.txt | awk '{print $3}' | tr '\n' ' ')
  echo "$(date -u +%H:%M) seed=$s property=$prop $ex violations=$viol wall=$((t1-t0))s caught_by=[$which]" >> seeded/RESULTS.txt
  mkdir -p seeded/$s/run; cp $work/out.txt seeded/$s/run/check_output.txt; cp $work/verif/replay/*.json seeded/$s/run/ 2>/dev/null
  rm -rf $work
done
