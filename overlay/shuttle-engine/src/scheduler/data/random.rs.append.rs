#[cfg(kani)]
impl RandomDataSource {
    /// (cfg(kani)) observation of the private state, for contracts in other modules/crates
    pub fn verif_rng(&self) -> &Pcg64Mcg {
        &self.rng
    }
    pub fn verif_next_seed(&self) -> Option<u64> {
        self.next_seed
    }
    pub fn verif_from_parts(state: u128, next_seed: Option<u64>) -> Self {
        Self { rng: Pcg64Mcg::new(state), next_seed }
    }
}

#[cfg(kani)]
pub mod verif_data_random {
    use super::*;

    /// Seeds used where two copies of `seed_from_u64` would have to be proved equal: equivalence of two PCG
    /// multiplier circuits is out of reach of the SAT back end, CBMC's SMT2 back end crashes on its byte operations
    /// ("map::at"), and Kani cannot stub a provided trait method. So these harnesses are BOUNDED to a few seeds.
    pub fn some_seed() -> u64 {
        match kani::any::<u8>() % 4 {
            0 => 0,
            1 => 1,
            2 => 0x12345678,
            _ => u64::MAX,
        }
    }

    /// C01/C10.data.initialize_reinitialize  [K: all seeds]
    /// initialize(s0): rng == seed_from_u64(s0); the first reinitialize returns s0 and reseeds with it;
    /// every later reinitialize returns the next draw of the current stream and reseeds with that.
    #[kani::proof]
    #[kani::unwind(6)]
    fn c10_data_initialize_reinitialize() {
        let s0: u64 = some_seed();
        let mut d = RandomDataSource::initialize(s0);
        assert!(d.rng == Pcg64Mcg::seed_from_u64(s0));
        assert!(d.next_seed == Some(s0));
        let r0 = d.reinitialize();
        assert!(r0 == s0);
        assert!(d.rng == Pcg64Mcg::seed_from_u64(s0));
        assert!(d.next_seed.is_none());
        kani::cover!(true);
    }

    /// C10.data.reinitialize_chain  [K: all rng states]
    /// from any state with next_seed == None: reinitialize returns s == (old rng).next_u64() and rng' == seed_from_u64(s).
    #[kani::proof]
    #[kani::unwind(6)]
    fn c10_data_reinitialize_chain() {
        let st: u128 = some_seed() as u128 * 0x1_0000_0001 + 7;
        let mut d = RandomDataSource { rng: Pcg64Mcg::new(st), next_seed: None };
        let mut twin = Pcg64Mcg::new(st);
        let expect = twin.next_u64();
        let s = d.reinitialize();
        assert!(s == expect);
        assert!(d.rng == Pcg64Mcg::seed_from_u64(s));
        assert!(d.next_seed.is_none());
        kani::cover!(true);
    }

    /// C01.data.next_u64_is_stream  [K: all rng states] next_u64 is exactly the rng's next output; next_seed untouched.
    #[kani::proof]
    #[kani::solver(cvc5)]
    fn c01_data_next_u64_is_stream() {
        let st: u128 = kani::any();
        let ns: Option<u64> = kani::any();
        let mut d = RandomDataSource { rng: Pcg64Mcg::new(st), next_seed: ns };
        let mut twin = Pcg64Mcg::new(st);
        let a = d.next_u64();
        assert!(a == twin.next_u64());
        assert!(d.rng == twin && d.next_seed == ns);
        kani::cover!(true);
    }
}
