"""Registry: property -> obligations. The committed expected-obligation list (guard 1 of DESIGN.md §2.4)."""

ENGINE = "shuttle-engine"
SCHED = "shuttle-schedulers"
STD = "shuttle-std"

CANARY_KANI = {"name": "canary.kani", "lane": "K", "crate": ENGINE, "harness": "verif_canary_must_fail"}


def K(name, harness, formula, functions, crate=ENGINE, tier="quick", features=None, **kw):
    d = {"name": name, "lane": "K", "harness": harness, "formula": formula, "functions": functions,
         "crate": crate, "tier": tier, "features": features}
    d.update(kw)
    return d


def Kb(name, harness, formula, functions, bound, crate=ENGINE, tier="quick", features=None, **kw):
    d = K(name, harness, formula, functions, crate, tier, features, **kw)
    d["lane"] = "Kb"
    d["bound"] = bound
    return d


SER = "shuttle-engine/src/scheduler/serialization.rs"

PROPS = {}

PROPS["C16"] = {
    "scope": "varint codec complete over all u64 / all byte strings the decoder can read (K); ",
    "kani": [
        K("C16.varint.write_is_enc", "c16_varint_write_is_enc",
          "forall x:u64. write_u64_varint(x) appends enc(x) (LEB128), |enc(x)| == space_needed(x) in 1..=10",
          [SER + "::varint::write_u64_varint", SER + "::varint::space_needed"]),
        K("C16.varint.read_inverts_write", "c16_varint_read_inverts_write",
          "forall x:u64, rest. read_u64_varint(enc(x) ++ rest) == Ok(x) consuming exactly |enc(x)| bytes",
          [SER + "::varint::read_u64_varint", SER + "::varint::write_u64_varint"]),
        K("C16.varint.read_total", "c16_varint_read_total",
          "forall bytes, |bytes| <= 11. read_u64_varint returns Ok/Err without panic or overflow, consumes <= 10 bytes; "
          "Ok(v) => v is the base-128 value of the consumed bytes and continuation bits are well formed",
          [SER + "::varint::read_u64_varint"]),
    ],
    "overlay_files": ["shuttle-engine/src/scheduler/serialization.rs.append.rs"],
    "assumptions": [],
    "not_decided": [],
}

PROPS["C15"] = {
    "scope": "",
    "verus_units": ["clock"],
    "kani": [],
    "kani_companions": [],
    "overlay_files": [],
    "assumptions": [],
    "not_decided": [],
}
