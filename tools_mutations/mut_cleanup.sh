M=/var/tmp/cleanup_mut; rm -rf $M; mkdir -p $M/shuttle-engine/src/runtime; F=shuttle-engine/src/runtime/execution.rs
cd /verif
run(){ python3 -m pipeline.vdev cleanup $M 2>&1 | grep -E "^unit|ERR|AnchorLost" ; }
cp /repo/$F $M/$F; (cd $M && patch -p1 -s < /verif/seeded/C14-labels-cleared-too-early/patch.diff); echo "== seed C14 labels early"; run
cp /repo/$F $M/$F; python3 - <<'E'
p='/var/tmp/cleanup_mut/shuttle-engine/src/runtime/execution.rs'
s=open(p).read()
s=s.replace("        while Self::with(|state| state.storage.pop()).is_some() {}\n\n        TASK_ID_TO_TAGS","        TASK_ID_TO_TAGS")
s=s.replace("        LABELS.with(|cell| cell.borrow_mut().clear());\n\n        #[cfg(debug_assertions)]","        LABELS.with(|cell| cell.borrow_mut().clear());\n        while Self::with(|state| state.storage.pop()).is_some() {}\n\n        #[cfg(debug_assertions)]")
open(p,'w').write(s)
E
echo "== storage drained after labels cleared"; run
cp /repo/$F $M/$F; sed -i 's/            state.in_cleanup = true;/            state.in_cleanup = false;/' $M/$F; echo "== in_cleanup not set"; run
cp /repo/$F $M/$F; sed -i 's/        LABELS.with(|cell| cell.borrow_mut().clear());$/        if final_state == ScheduledTask::Finished { LABELS.with(|cell| cell.borrow_mut().clear()); }/' $M/$F; echo "== labels cleared only when Finished"; run
cp /repo/$F $M/$F; python3 - <<'E'
p='/var/tmp/cleanup_mut/shuttle-engine/src/runtime/execution.rs'
s=open(p).read()
a="        while Self::with(|state| state.storage.pop()).is_some() {}\n"
b="        for task in tasks.drain(..) {"
i=s.index(b); j=s.index(a)
s=s[:i]+a.lstrip()+"\n        "+s[i:j]+s[j+len(a):]
open(p,'w').write(s)
E
echo "== storage drained before tasks"; run
cp /repo/$F $M/$F; python3 - <<'E'
p='/var/tmp/cleanup_mut/shuttle-engine/src/runtime/execution.rs'
s=open(p).read()
s=s.replace("        Self::with(|state| state.in_cleanup = false);\n","",1)
s=s.replace("        while Self::with(|state| state.storage.pop()).is_some() {}\n","        Self::with(|state| state.in_cleanup = false);\n        while Self::with(|state| state.storage.pop()).is_some() {}\n",1)
open(p,'w').write(s)
E
echo "== in_cleanup reset before storage drained"; run
cp /repo/$F $M/$F; sed -i 's/        while Self::with(|state| state.storage.pop()).is_some() {}/        if final_state == ScheduledTask::Finished { while Self::with(|state| state.storage.pop()).is_some() {} }/' $M/$F; echo "== storage drained only when Finished"; run
cp /repo/$F $M/$F; python3 - <<'E'
p='/var/tmp/cleanup_mut/shuttle-engine/src/runtime/execution.rs'
s=open(p).read()
s=s.replace("        TASK_ID_TO_TAGS.with(|cell| cell.borrow_mut().clear());\n        LABELS.with(|cell| cell.borrow_mut().clear());\n","        LABELS.with(|cell| cell.borrow_mut().clear());\n        TASK_ID_TO_TAGS.with(|cell| cell.borrow_mut().clear());\n",1)
open(p,'w').write(s)
E
echo "== harmless: labels then tags"; run
rm -rf $M
