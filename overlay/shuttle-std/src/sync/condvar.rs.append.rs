#[cfg(kani)]
mod verif_condvar {
    //! C05: Condvar segments. Other tasks are represented by the environment hook run at the choice point inside `wait`
    //! (DESIGN.md 2.2.1): it puts the waiter table into a configuration that notify_one calls issued while we waited can
    //! have produced; the contract is stated over the state after that configuration.
    use super::*;
    use crate::sync::Mutex;
    use shuttle_engine::runtime::execution::verif_exec::{new_store, run_in, state_with, task_state, use_store, SpecSched};
    use shuttle_engine::runtime::task::TaskState;
    use shuttle_engine::verif_support::{fixed_random_state, stub_false, switches, verif_switch, ENV};
    use std::rc::Rc;

    const SIG_CV: ResourceSignature = ResourceSignature::new_const(ResourceType::Condvar);
    const SIG_M: ResourceSignature = ResourceSignature::new_const(ResourceType::Mutex);
    const BLOCKED: TaskState = TaskState::Blocked { allow_spurious_wakeups: false };

    static mut CV: *const Condvar = std::ptr::null();
    static mut CFG: (u8, u8, bool) = (0, 0, false); // epoch lists of waiter 1 and 2 (0:[0,1] 1:[1] 2:[0]); mine: false:[1] true:[0,1]

    fn list(code: u8) -> VecDeque<(usize, VectorClock)> {
        let mut q = VecDeque::with_capacity(4);
        match code {
            0 => { q.push_back((0, VectorClock::new())); q.push_back((1, VectorClock::new())); }
            1 => { q.push_back((1, VectorClock::new())); }
            _ => { q.push_back((0, VectorClock::new())); }
        }
        q
    }

    /// what two notify_one calls (epochs 0 and 1) issued while we were blocked leave behind, for waiters that arrived
    /// before epoch 0 ([0,1]), between the two ([1]) or that already lost epoch 1 to someone else ([0])
    fn env_notified() {
        if switches() != 3 {
            return; // only the choice point inside Condvar::wait
        }
        unsafe {
            let cv = &*CV;
            let mut st = cv.state.borrow_mut();
            let (c1, c2, mine_both) = CFG;
            let n = st.waiters.len();
            let mut i = 0;
            while i < n {
                let tid: usize = st.waiters[i].0.into();
                let q = match tid { 1 => list(c1), 2 => list(c2), _ => list(if mine_both { 0 } else { 1 }) };
                let old = std::mem::replace(&mut st.waiters[i].1, CondvarWaitStatus::Signal(q));
                std::mem::forget(old);
                i += 1;
            }
            st.next_epoch = 2;
        }
        // the notifier made every waiter runnable
        ExecutionState::with(|s| {
            s.get_mut(TaskId::from(0)).unblock();
            s.get_mut(TaskId::from(1)).unblock();
            s.get_mut(TaskId::from(2)).unblock();
        });
    }

    fn has_epoch(q: &VecDeque<(usize, VectorClock)>, e: usize) -> bool {
        let mut i = 0;
        while i < q.len() {
            if q[i].0 == e { return true; }
            i += 1;
        }
        false
    }

    /// C05.condvar.wait_consumes_one_epoch [Kb: two other waiters, epochs {0,1}]: the woken waiter consumes its OLDEST
    /// pending epoch and that epoch disappears from EVERY other waiter's list wherever it is; a waiter left with no epoch
    /// goes back to Waiting and is blocked again; one with epochs left stays runnable. The mutex is released before
    /// blocking and re-held on return.
    #[kani::proof]
    #[kani::solver(minisat)]
    #[kani::unwind(6)]
    #[kani::stub(shuttle_engine::runtime::thread::continuation::switch, verif_switch)]
    #[kani::stub(std::hash::RandomState::new, fixed_random_state)]
    #[kani::stub(shuttle_engine::backtrace_enabled, stub_false)]
    fn c05_condvar_wait_consumes_one_epoch() {
        // both other waiters were present for epochs 0 and 1; I arrived between them: my epoch (1) sits BEHIND an older
        // one in their lists
        wait_contract(0, 0, false);
    }

    /// same contract; waiter 1 only saw epoch 1 (goes back to Waiting, blocked), waiter 2 only epoch 0 (unaffected)
    #[kani::proof]
    #[kani::solver(minisat)]
    #[kani::unwind(6)]
    #[kani::stub(shuttle_engine::runtime::thread::continuation::switch, verif_switch)]
    #[kani::stub(std::hash::RandomState::new, fixed_random_state)]
    #[kani::stub(shuttle_engine::backtrace_enabled, stub_false)]
    fn c05_condvar_wait_reblocks_exhausted_waiter() {
        wait_contract(1, 2, false);
    }

    fn wait_contract(c1: u8, c2: u8, mine_both: bool) {
        let mut store = new_store();
        use_store(&mut store);
        let st = state_with([TaskState::Runnable, BLOCKED, BLOCKED], 0, Rc::new(RefCell::new(SpecSched::new())));
        let m = Mutex::new_internal(0u8, SIG_M);
        m.verif_prepare_free();
        let mut waiters = Vec::with_capacity(4);
        waiters.push((TaskId::from(1), CondvarWaitStatus::Waiting));
        waiters.push((TaskId::from(2), CondvarWaitStatus::Waiting));
        let cv = Condvar { state: RefCell::new(CondvarState { waiters, next_epoch: 0 }), signature: SIG_CV };
        unsafe {
            CV = &cv;
            CFG = (c1, c2, mine_both);
            ENV = Some(env_notified);
        }
        let (r, cell) = run_in(st, || {
            let g = m.lock().unwrap();
            cv.wait(g)
        });
        assert!(r.is_ok());
        let consumed: usize = if mine_both { 0 } else { 1 };
        let s = cv.state.borrow();
        assert!(s.waiters.len() == 2); // I am no longer registered
        let mut i = 0;
        while i < 2 {
            let tid: usize = s.waiters[i].0.into();
            let code = if tid == 1 { c1 } else { c2 };
            let had = match code { 0 => true, 1 => consumed == 1, _ => consumed == 0 };
            let remaining = match code { 0 => 1, _ => if had { 0 } else { 1 } };
            match &s.waiters[i].1 {
                CondvarWaitStatus::Signal(q) => {
                    assert!(remaining == 1 && q.len() == 1);
                    assert!(!has_epoch(q, consumed)); // nobody else can be released by the epoch that released me
                    assert!(task_state(&cell, tid) == TaskState::Runnable);
                }
                CondvarWaitStatus::Waiting => {
                    assert!(remaining == 0);
                    assert!(task_state(&cell, tid) == BLOCKED); // no invented wake-up
                }
                CondvarWaitStatus::Broadcast(_) => assert!(false),
            }
            i += 1;
        }
        // mutex re-held by me
        assert!(m.verif_holder() == Some(TaskId::from(0)) && m.verif_permits() == 0);
        assert!(switches() == 4);
        kani::cover!(true);
        drop(s);
        std::mem::forget(r);
        std::mem::forget(cv);
        std::mem::forget(m);
    }

    /// C05.condvar.notify_one [Kb: two waiters]: every current waiter receives the fresh epoch at the tail of its list and
    /// is made runnable; next_epoch increases by one; a waiter already released by a broadcast is left alone.
    #[kani::proof]
    #[kani::solver(minisat)]
    #[kani::unwind(6)]
    #[kani::stub(shuttle_engine::runtime::thread::continuation::switch, verif_switch)]
    #[kani::stub(std::hash::RandomState::new, fixed_random_state)]
    #[kani::stub(shuttle_engine::backtrace_enabled, stub_false)]
    fn c05_condvar_notify_one() {
        let mut store = new_store();
        use_store(&mut store);
        let st = state_with([TaskState::Runnable, BLOCKED, BLOCKED], 0, Rc::new(RefCell::new(SpecSched::new())));
        let mut waiters = Vec::with_capacity(4);
        let w1_has: bool = true;
        waiters.push((TaskId::from(1), if w1_has { CondvarWaitStatus::Signal(list(2)) } else { CondvarWaitStatus::Waiting }));
        // (both waiters already hold an epoch list with room: growing a fresh VecDeque makes CBMC walk the
        // allocation-failure reporting code and needs > 35 GB)
        waiters.push((TaskId::from(2), CondvarWaitStatus::Signal(list(2))));
        let e0: usize = if w1_has { 1 } else { 0 };
        let cv = Condvar { state: RefCell::new(CondvarState { waiters, next_epoch: e0 }), signature: SIG_CV };
        let ((), cell) = run_in(st, || cv.notify_one());
        assert!(switches() == 1);
        let s = cv.state.borrow();
        assert!(s.next_epoch == e0 + 1 && s.waiters.len() == 2);
        let mut i = 0;
        while i < 2 {
            match &s.waiters[i].1 {
                CondvarWaitStatus::Signal(q) => {
                    assert!(q.len() == 2);
                    assert!(q[q.len() - 1].0 == e0);
                }
                _ => assert!(false),
            }
            i += 1;
        }
        assert!(task_state(&cell, 1) == TaskState::Runnable && task_state(&cell, 2) == TaskState::Runnable);
        kani::cover!(true);
        drop(s);
        std::mem::forget(cv);
    }
}
