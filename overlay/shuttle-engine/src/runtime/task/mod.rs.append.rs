#[cfg(kani)]
#[allow(deprecated)]
impl Task {
    /// Build a `Task` without a coroutine (cfg(kani) only). All fields that the runtime logic reads are set
    /// exactly as `Task::new` sets them, except those passed in.
    pub fn verif_dummy(id: usize, state: TaskState, detached: bool) -> Task {
        let id = TaskId(id);
        Task {
            id,
            parent_task_id: None,
            state,
            continuation: Rc::new(RefCell::new(PooledContinuation::verif_empty())),
            yielder: std::ptr::null(),
            clock: VectorClock::new(),
            waiter: None,
            waker: make_waker(id),
            woken: false,
            detached,
            park_state: ParkState::default(),
            name: None,
            step_span: Span::none(),
            span_stack: Vec::new(),
            local_storage: StorageMap::verif_new(),
            tag: None,
            backtrace: None,
            signature: TaskSignature {
                task_creation_stack: Vec::new(),
                spawn_call_site_hash: 0,
                parent_signature_hash: 0,
                signature_hash: 0,
                child_counters: HashMap::with_hasher(crate::verif_support::fixed_random_state()),
            },
        }
    }

    pub fn verif_reset(&mut self, state: TaskState, detached: bool) {
        self.state = state;
        self.detached = detached;
    }

    pub fn verif_set(&mut self, woken: bool, token_available: bool, blocked_in_park: bool, waiter: Option<usize>) {
        self.woken = woken;
        self.park_state = ParkState { token_available, blocked_in_park };
        self.waiter = waiter.map(TaskId);
    }
    pub fn verif_state(&self) -> TaskState {
        self.state
    }
    pub(crate) fn verif_woken(&self) -> bool {
        self.woken
    }
    pub(crate) fn verif_park(&self) -> (bool, bool) {
        (self.park_state.token_available, self.park_state.blocked_in_park)
    }
    pub fn verif_waiter(&self) -> Option<TaskId> {
        self.waiter
    }
}

#[cfg(kani)]
impl kani::Arbitrary for TaskState {
    fn any() -> Self {
        match kani::any::<u8>() % 5 {
            0 => TaskState::Runnable,
            1 => TaskState::Blocked { allow_spurious_wakeups: false },
            2 => TaskState::Blocked { allow_spurious_wakeups: true },
            3 => TaskState::Sleeping,
            _ => TaskState::Finished,
        }
    }
}

#[cfg(kani)]
mod verif_task {
    //! C03 / C05 / C17: the task state machine, complete over every (TaskState, ParkState, woken, waiter, detached).
    use super::*;

    fn any_task() -> (Task, TaskState, bool, bool, bool, Option<usize>, bool) {
        let st: TaskState = kani::any();
        let detached: bool = kani::any();
        let woken: bool = kani::any();
        let tok: bool = kani::any();
        let bip: bool = kani::any();
        let waiter: Option<usize> = if kani::any() { Some(kani::any::<usize>() % 4) } else { None };
        let mut t = Task::verif_dummy(1, st, detached);
        t.verif_set(woken, tok, bip, waiter);
        (t, st, woken, tok, bip, waiter, detached)
    }

    /// frame: nothing but the listed fields changed
    fn frame_ok(t: &Task, detached: bool, waiter: Option<usize>) -> bool {
        t.id == TaskId(1) && t.detached == detached && t.waiter == waiter.map(TaskId)
    }

    #[kani::proof]
    #[kani::stub(crate::backtrace_enabled, stub_false)]
    fn c03_task_block() {
        let (mut t, st, woken, tok, bip, waiter, detached) = any_task();
        let spurious: bool = kani::any();
        kani::assume(st != TaskState::Finished); // requires (the code asserts it)
        t.block(spurious);
        assert!(t.state == TaskState::Blocked { allow_spurious_wakeups: spurious });
        assert!(t.woken == woken && t.verif_park() == (tok, bip) && frame_ok(&t, detached, waiter));
        assert!(!t.runnable() && t.blocked() && !t.finished() && t.can_spuriously_wakeup() == spurious);
        kani::cover!(spurious);
        std::mem::forget(t);
    }

    #[kani::proof]
    #[kani::stub(crate::backtrace_enabled, stub_false)]
    fn c03_task_sleep() {
        let (mut t, st, woken, tok, bip, waiter, detached) = any_task();
        kani::assume(st != TaskState::Finished);
        t.sleep();
        assert!(t.state == TaskState::Sleeping && t.sleeping() && !t.runnable() && !t.blocked());
        assert!(!t.can_spuriously_wakeup());
        assert!(t.woken == woken && t.verif_park() == (tok, bip) && frame_ok(&t, detached, waiter));
        kani::cover!(true);
        std::mem::forget(t);
    }

    #[kani::proof]
    fn c03_task_unblock() {
        let (mut t, st, woken, tok, _bip, waiter, detached) = any_task();
        kani::assume(st != TaskState::Finished);
        t.unblock();
        assert!(t.state == TaskState::Runnable && t.runnable());
        // an unblocked task is no longer parked; the token is untouched
        assert!(t.verif_park() == (tok, false));
        assert!(t.woken == woken && frame_ok(&t, detached, waiter));
        kani::cover!(true);
        std::mem::forget(t);
    }

    #[kani::proof]
    fn c03_task_finish() {
        let (mut t, st, woken, tok, bip, waiter, detached) = any_task();
        kani::assume(st != TaskState::Finished);
        t.finish();
        assert!(t.state == TaskState::Finished && t.finished() && !t.runnable() && !t.blocked() && !t.sleeping());
        assert!(!t.can_spuriously_wakeup());
        assert!(t.woken == woken && t.verif_park() == (tok, bip) && frame_ok(&t, detached, waiter));
        kani::cover!(true);
        std::mem::forget(t);
    }

    /// Finished is absorbing: every state-changing transition refuses (panics on) a finished task,
    /// and the non-panicking ones (wake, abort, detach, set_waiter, take_waiter, unpark-with-no-park) leave it Finished.
    #[kani::proof]
    fn c03_task_finished_absorbing() {
        let (mut t, st, _woken, _tok, bip, _waiter, _detached) = any_task();
        kani::assume(st == TaskState::Finished);
        kani::assume(!bip); // a finished task is not blocked in park (inv_park: blocked_in_park => Blocked)
        match kani::any::<u8>() % 6 {
            0 => t.wake(),
            1 => t.abort(),
            2 => t.detach(),
            3 => {
                let _ = t.set_waiter(TaskId(t.waiter.map(|w| w.0).unwrap_or(2)));
            }
            4 => {
                let _ = t.take_waiter();
            }
            _ => t.unpark(),
        }
        assert!(t.state == TaskState::Finished);
        kani::cover!(true);
        std::mem::forget(t);
    }

    #[kani::proof]
    #[kani::stub(crate::backtrace_enabled, stub_false)]
    fn c17_task_sleep_unless_woken() {
        let (mut t, st, woken, tok, bip, waiter, detached) = any_task();
        kani::assume(st != TaskState::Finished);
        t.sleep_unless_woken();
        // the woken flag is consumed; the task sleeps iff no wake arrived since the flag was last cleared
        assert!(!t.woken);
        if woken {
            assert!(t.state == st);
        } else {
            assert!(t.state == TaskState::Sleeping);
        }
        assert!(t.verif_park() == (tok, bip) && frame_ok(&t, detached, waiter));
        kani::cover!(woken);
        kani::cover!(!woken);
        std::mem::forget(t);
    }

    #[kani::proof]
    fn c17_task_wake() {
        let (mut t, st, _woken, tok, bip, waiter, detached) = any_task();
        t.wake();
        // wake is never lost: the flag is set whatever the state; a Sleeping task becomes Runnable;
        // a task blocked in a synchronisation primitive is NOT made runnable by a waker.
        assert!(t.woken);
        if st == TaskState::Sleeping {
            assert!(t.state == TaskState::Runnable);
            assert!(t.verif_park() == (tok, false));
        } else {
            assert!(t.state == st);
            assert!(t.verif_park() == (tok, bip));
        }
        assert!(frame_ok(&t, detached, waiter));
        kani::cover!(st == TaskState::Sleeping);
        kani::cover!(st == TaskState::Finished);
        std::mem::forget(t);
    }

    /// No lost wake-up, as a two-step obligation over the real methods: for every state, a wake (at any point
    /// after the previous sleep_unless_woken) followed by sleep_unless_woken leaves the task not Sleeping.
    #[kani::proof]
    #[kani::stub(crate::backtrace_enabled, stub_false)]
    fn c17_task_no_lost_wakeup() {
        let (mut t, st, _woken, _tok, _bip, _waiter, _detached) = any_task();
        kani::assume(st != TaskState::Finished);
        let wake_before: bool = kani::any();
        if wake_before {
            t.wake();
        }
        let was_woken = t.woken;
        let st1 = t.state;
        t.sleep_unless_woken();
        if was_woken {
            assert!(t.state == st1 && t.state != TaskState::Sleeping || st1 == TaskState::Sleeping && !wake_before);
        }
        if wake_before {
            assert!(t.state != TaskState::Sleeping);
        }
        // and a wake that arrives after the task went to sleep makes it runnable again
        if t.state == TaskState::Sleeping {
            t.wake();
            assert!(t.state == TaskState::Runnable && t.woken);
        }
        kani::cover!(wake_before);
        std::mem::forget(t);
    }

    #[kani::proof]
    fn c17_task_abort() {
        let (mut t, st, woken, _tok, _bip, waiter, detached) = any_task();
        t.abort();
        if st == TaskState::Finished {
            assert!(t.state == st && t.woken == woken);
        } else {
            assert!(t.woken);
            assert!(t.state == if st == TaskState::Sleeping { TaskState::Runnable } else { st });
        }
        assert!(frame_ok(&t, detached, waiter));
        kani::cover!(st == TaskState::Finished);
        kani::cover!(st == TaskState::Sleeping);
        std::mem::forget(t);
    }

    #[kani::proof]
    fn c07_task_waiter() {
        let (mut t, st, _woken, _tok, _bip, waiter, _detached) = any_task();
        let w: usize = kani::any::<usize>() % 4;
        kani::assume(waiter.is_none() || waiter == Some(w)); // requires: at most one waiter
        let r = t.set_waiter(TaskId(w));
        // returns "should block" iff the target has not finished; registers the waiter only then
        assert!(r == (st != TaskState::Finished));
        if r {
            assert!(t.waiter == Some(TaskId(w)));
        } else {
            assert!(t.waiter == waiter.map(TaskId));
        }
        assert!(t.state == st);
        let before = t.waiter;
        let got = t.take_waiter();
        assert!(got == before && t.waiter.is_none());
        assert!(t.take_waiter().is_none()); // delivered at most once
        kani::cover!(r);
        kani::cover!(!r);
        std::mem::forget(t);
    }

    #[kani::proof]
    fn c03_task_detach() {
        let (mut t, st, woken, tok, bip, waiter, _detached) = any_task();
        t.detach();
        assert!(t.detached && t.is_detached() && t.state == st && t.woken == woken);
        assert!(t.verif_park() == (tok, bip) && t.waiter == waiter.map(TaskId));
        kani::cover!(true);
        std::mem::forget(t);
    }

    fn inv_park(t: &Task) -> bool {
        let (tok, bip) = t.verif_park();
        !(tok && bip) && (!bip || t.state == TaskState::Blocked { allow_spurious_wakeups: true })
    }

    #[kani::proof]
    #[kani::stub(crate::backtrace_enabled, stub_false)]
    fn c05_task_park() {
        let (mut t, st, woken, tok, bip, waiter, detached) = any_task();
        kani::assume(inv_park(&t));
        // requires: the caller is the running task: not blocked, not finished, not already parked
        kani::assume(st == TaskState::Runnable && !bip);
        let must_switch = t.park();
        if tok {
            // token consumed, no blocking
            assert!(!must_switch && t.verif_park() == (false, false) && t.state == st);
        } else {
            assert!(must_switch && t.verif_park() == (false, true));
            assert!(t.state == TaskState::Blocked { allow_spurious_wakeups: true });
        }
        assert!(inv_park(&t) && t.woken == woken && frame_ok(&t, detached, waiter));
        kani::cover!(tok);
        kani::cover!(!tok);
        std::mem::forget(t);
    }

    #[kani::proof]
    fn c05_task_unpark() {
        let (mut t, st, woken, tok, bip, waiter, detached) = any_task();
        kani::assume(inv_park(&t));
        t.unpark();
        if bip {
            // the parked task is released; no token is left behind
            assert!(t.state == TaskState::Runnable && t.verif_park() == (false, false));
        } else {
            // token made available; tokens do not accumulate (a bool); state untouched
            assert!(t.state == st && t.verif_park() == (true, false));
        }
        let _ = tok;
        assert!(inv_park(&t) && t.woken == woken && frame_ok(&t, detached, waiter));
        kani::cover!(bip);
        kani::cover!(!bip && tok);
        std::mem::forget(t);
    }

    /// tokens do not accumulate: unpark; unpark; park; park  => the second park blocks.
    #[kani::proof]
    #[kani::stub(crate::backtrace_enabled, stub_false)]
    fn c05_task_unpark_not_cumulative() {
        let mut t = Task::verif_dummy(1, TaskState::Runnable, kani::any());
        t.verif_set(kani::any(), kani::any(), false, None);
        t.unpark();
        t.unpark();
        assert!(!t.park());
        assert!(t.park());
        assert!(t.blocked() && t.can_spuriously_wakeup());
        // and an unpark releases it, leaving no token
        t.unpark();
        assert!(t.runnable() && t.verif_park() == (false, false));
        kani::cover!(true);
        std::mem::forget(t);
    }

    /// a spurious wake-up (scheduler unblocks a parked task) un-parks it without creating a token:
    /// a later unpark stores the token, it does not "unblock" a task blocked elsewhere.
    #[kani::proof]
    #[kani::stub(crate::backtrace_enabled, stub_false)]
    fn c05_task_spurious_wakeup_then_unpark() {
        let mut t = Task::verif_dummy(1, TaskState::Runnable, false);
        assert!(t.park());
        t.unblock(); // what schedule() does when it picks a spuriously-wakeable task
        assert!(t.verif_park() == (false, false));
        t.block(false); // now blocked on, say, a mutex
        t.unpark();
        assert!(t.state == TaskState::Blocked { allow_spurious_wakeups: false });
        assert!(t.verif_park() == (true, false));
        kani::cover!(true);
        std::mem::forget(t);
    }

    pub(crate) fn stub_false() -> bool {
        false
    }
}
