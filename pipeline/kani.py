"""Lane K / Kb: run Kani harnesses that live (via the overlay) inside the real crates."""
import concurrent.futures
import os
import re
import resource
import subprocess
import time

KANI_FLAGS = [
    "-Z", "unstable-options", "--ignore-global-asm",
    "-Z", "function-contracts", "-Z", "stubbing",
    "--output-format=terse",
]

MEM_CAP_BYTES = int(os.environ.get("VERIF_KANI_MEM_GB", "40")) * (1 << 30)


def _env(target, fragile=True):
    e = dict(os.environ)
    e["CARGO_TARGET_DIR"] = target
    # `verif_fragile` enables harnesses that call PRIVATE helpers by name (they stop compiling when a helper's signature
    # changes); if the crate does not build with them the group is rebuilt without (those obligations become undecided)
    e["RUSTFLAGS"] = "--cap-lints=warn" + (" --cfg verif_fragile" if fragile else "")
    e["CARGO_NET_OFFLINE"] = "true"
    e.pop("RUSTC_WRAPPER", None)
    return e


def _limit():
    resource.setrlimit(resource.RLIMIT_AS, (MEM_CAP_BYTES, MEM_CAP_BYTES))


def build_cmd(crate, features, harness, extra=()):
    cmd = ["cargo", "kani", "-p", crate] + KANI_FLAGS
    if features:
        cmd += ["--features", ",".join(features)]
    cmd += ["--harness", harness, "--exact"] if "::" in harness else ["--harness", harness]
    cmd += list(extra)
    return cmd


def warm(scratch, crate, features):
    """Compile the crate for Kani once (so parallel harness runs find a warm cache). Returns (ok, log)."""
    cmd = ["cargo", "kani", "-p", crate] + KANI_FLAGS + ["--only-codegen"]
    if features:
        cmd += ["--features", ",".join(features)]
    t0 = time.time()
    p = subprocess.run(cmd, cwd=scratch.repo, env=_env(scratch.target), stdout=subprocess.PIPE,
                       stderr=subprocess.STDOUT, text=True)
    return p.returncode == 0, p.stdout, time.time() - t0


RESULT_RE = re.compile(r"\*\* (\d+) of (\d+) failed")
COVER_RE = re.compile(r"\*\* (\d+) of (\d+) cover properties satisfied")


def parse(out):
    r = {"status": "undecided", "checks": 0, "failed": 0, "covers": 0, "covers_sat": 0,
         "failed_checks": [], "solver_s": None, "reason": ""}
    m = RESULT_RE.search(out)
    if m:
        r["failed"] = int(m.group(1))
        r["checks"] = int(m.group(2))
    m = COVER_RE.search(out)
    if m:
        r["covers_sat"] = int(m.group(1))
        r["covers"] = int(m.group(2))
    m = re.search(r"Verification Time: ([0-9.]+)s", out)
    if m:
        r["solver_s"] = float(m.group(1))
    for fm in re.finditer(r"Failed Checks: (.*)\n\s*File: \"([^\"]*)\", line (\d+), in (\S+)", out):
        r["failed_checks"].append({"desc": fm.group(1).strip(), "file": fm.group(2), "line": int(fm.group(3)),
                                   "fn": fm.group(4)})
    if "VERIFICATION:- SUCCESSFUL" in out:
        r["status"] = "ok"
    elif "VERIFICATION:- FAILED" in out:
        r["status"] = "failed"
        # failures that are tool limits, not refutations
        descs = " | ".join(f["desc"] for f in r["failed_checks"])
        if r["failed_checks"] and all(
            ("unwinding assertion" in f["desc"]) or ("is not currently supported" in f["desc"])
            or ("unsupported" in f["desc"].lower())
            for f in r["failed_checks"]
        ):
            r["status"] = "undecided"
            r["reason"] = "tool limit: " + descs
    else:
        r["reason"] = "no verdict in output (compile error, crash, timeout or memory cap)"
    return r


def run_harness(scratch, crate, features, harness, timeout_s, logdir, extra=()):
    cmd = build_cmd(crate, features, harness, extra)
    t0 = time.time()
    try:
        p = subprocess.run(cmd, cwd=scratch.repo, env=_env(scratch.target), stdout=subprocess.PIPE,
                           stderr=subprocess.STDOUT, text=True, timeout=timeout_s, preexec_fn=_limit)
        out = p.stdout
        timed_out = False
    except subprocess.TimeoutExpired as e:
        out = (e.stdout or b"")
        if isinstance(out, bytes):
            out = out.decode("utf-8", "replace")
        timed_out = True
        subprocess.run(["pkill", "-f", "cbmc.*" + re.escape(harness)], check=False)
    wall = time.time() - t0
    os.makedirs(logdir, exist_ok=True)
    logp = os.path.join(logdir, harness.replace("::", "__") + ".log")
    with open(logp, "w") as fh:
        fh.write("$ " + " ".join(cmd) + "\n" + out)
    r = parse(out)
    if timed_out:
        r["status"] = "undecided"
        r["reason"] = "timeout after %ds" % timeout_s
    r["wall_s"] = round(wall, 1)
    r["log"] = logp
    r["cmd"] = " ".join(cmd)
    return r


def _classify(hid, res, pd, err):
    """Turn one entry of Kani's --export-json into a result record."""
    r = {"status": "undecided", "checks": 0, "failed": 0, "covers": 0, "covers_sat": 0, "failed_checks": [],
         "solver_s": None, "reason": ""}
    if pd:
        g = lambda k: pd.get(k) or 0
        r["checks"] = g("total_properties")
        r["failed"] = g("failed")
        r["covers_sat"] = g("satisfied")
        r["covers"] = g("satisfied") + g("unsatisfiable")
        r["undetermined"] = g("undetermined")
    if res:
        r["solver_s"] = round(res.get("duration_ms", 0) / 1000.0, 2)
        for c in res.get("checks", []):
            if c.get("status") in ("Failure", "Undetermined") and c.get("category") != "cover":
                loc = c.get("location") or {}
                r["failed_checks"].append({"desc": c.get("description", ""), "file": loc.get("file", ""),
                                           "line": int(loc.get("line")) if str(loc.get("line") or "").isdigit() else 0, "fn": c.get("function", ""),
                                           "status": c.get("status"), "category": c.get("category")})
        st = res.get("status")
        if st == "Success":
            r["status"] = "ok"
        elif st == "Failure":
            real = [f for f in r["failed_checks"] if f["status"] == "Failure"]
            # Not refutations: unwinding / unsupported-construct checks, and failures located in Kani's own C model of
            # the allocator (kani_lib.c). The latter were seen ONCE, on a run under memory pressure, for two harnesses
            # that pass when re-run on the same tree: a verifier artefact, never caused by the code under contract.
            tool = [f for f in real if ("unwinding assertion" in f["desc"]) or ("not currently supported" in f["desc"])
                    or ("unsupported" in f["desc"].lower()) or f.get("category") in ("unwind", "unsupported_construct")
                    or f["file"].endswith("kani_lib.c") or "/library/kani/" in f["file"]]
            if real and len(tool) == len(real):
                r["status"] = "undecided"
                r["reason"] = "tool limit: " + " | ".join(f["desc"] for f in tool[:3])
            elif real:
                r["status"] = "failed"
                r["failed_checks"] = [f for f in real if f not in tool]
            else:
                r["status"] = "undecided"
                r["reason"] = "harness failed without a failed check (%s)" % (err or {}).get("exit_status", "timeout / out of memory?")
        else:
            r["reason"] = "status %s" % st
    else:
        r["reason"] = "harness produced no result (timeout, memory cap or compile error)"
    return r


def run_many(scratch, jobs, logdir, parallel):
    """jobs: list of dicts {crate, features, harness, timeout_s}. One `cargo kani` invocation per (crate, features):
    the crate is compiled once, harnesses are verified in parallel (-j), results come from --export-json."""
    import json
    results = {}
    os.makedirs(logdir, exist_ok=True)
    groups = {}
    for j in jobs:
        groups.setdefault((j["crate"], tuple(j.get("features") or ())), []).append(j)
    for (crate, feats), js in groups.items():
        tag = "%s_%s" % (crate, "_".join(feats) or "default")
        jpath = os.path.join(logdir, "kani_%s.json" % tag)
        if os.path.exists(jpath):
            os.remove(jpath)
        hto = max(j.get("timeout_s", 600) for j in js)
        cmd = ["cargo", "kani", "-p", crate] + KANI_FLAGS + ["-j", str(parallel), "--output-into-files",
                                                            "--harness-timeout", "%ds" % hto, "--export-json", jpath]
        if feats:
            cmd += ["--features", ",".join(feats)]
        for j in js:
            cmd += ["--harness", j["harness"]]
        t0 = time.time()
        total_to = hto * (1 + len(js) // max(1, parallel)) + 900
        out = ""
        for fragile in (True, False):
            try:
                p = subprocess.run(cmd, cwd=scratch.repo, env=_env(scratch.target, fragile), stdout=subprocess.PIPE,
                                   stderr=subprocess.STDOUT, text=True, timeout=total_to, preexec_fn=_limit)
                out = p.stdout
            except subprocess.TimeoutExpired as e:
                out = e.stdout.decode("utf-8", "replace") if isinstance(e.stdout, bytes) else (e.stdout or "")
                subprocess.run(["pkill", "-f", "cbmc"], check=False)
            if os.path.exists(jpath) or "could not compile" not in out:
                break
            # build failure: retry once without the fragile harnesses
        wall = time.time() - t0
        with open(os.path.join(logdir, "kani_%s.log" % tag), "w") as fh:
            fh.write("$ " + " ".join(cmd) + "\n" + out)
        data = None
        if os.path.exists(jpath):
            try:
                data = json.load(open(jpath))
            except Exception:
                data = None
        by_id = {}
        if data:
            res = {r["harness_id"]: r for r in data.get("verification_results", {}).get("results", [])}
            pds = {r["harness_id"]: r["property_details"] for r in data.get("property_details", [])}
            errs = {r["harness_id"]: r for r in data.get("error_details", [])}
            for hid in set(res) | set(pds):
                by_id[hid] = _classify(hid, res.get(hid), pds.get(hid), errs.get(hid))
            # remove this run's intermediate files (disk hygiene); keep the cargo dependency cache
            od = (data.get("project") or {}).get("output_dir")
            if od and od.startswith(scratch.target) and not os.environ.get("VERIF_KEEP_SCRATCH"):
                import shutil
                shutil.rmtree(od, ignore_errors=True)
        for j in js:
            h = j["harness"]
            match = [hid for hid in by_id if hid == h or hid.endswith("::" + h)]
            if len(match) == 1:
                r = by_id[match[0]]
            elif len(match) > 1:
                r = {"status": "undecided", "reason": "harness name %s is ambiguous" % h, "failed_checks": [],
                     "checks": 0, "covers": 0, "covers_sat": 0}
            else:
                errs_txt = "\n".join(l for l in out.split("\n") if l.startswith("error"))[:1500]
                r = {"status": "undecided", "failed_checks": [], "checks": 0, "covers": 0, "covers_sat": 0,
                     "reason": "no result for harness (build failure, crash or timeout): " + errs_txt}
            r["wall_s"] = round(wall, 1)
            r["cmd"] = " ".join(cmd[:cmd.index("-j")] + ["--harness", h])
            results[h] = r
    return results
