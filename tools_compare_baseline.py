#!/usr/bin/env python3
"""Compare a nextest junit.xml with the pinned baseline's stable_pass list: prints every baseline test that did not pass."""
import json, sys, xml.etree.ElementTree as ET
junit = sys.argv[1] if len(sys.argv) > 1 else "/repo/target/nextest/pb/junit.xml"
base = json.load(open("/root/.vp/BASELINE.json"))
passed, failed = set(), set()
for tc in ET.parse(junit).getroot().iter("testcase"):
    tid = (tc.get("classname") or "") + "::" + (tc.get("name") or "")
    if tc.find("failure") is not None or tc.find("error") is not None or tc.find("flakyFailure") is not None:
        failed.add(tid)
    elif tc.find("skipped") is None:
        passed.add(tid)
passed -= failed
missing = [t for t in base["stable_pass"] if t not in passed]
print("baseline stable_pass=%d  passed now=%d  failed now=%d  baseline tests not passing=%d" % (len(base["stable_pass"]), len(passed), len(failed), len(missing)))
for t in missing:
    print("  NOT PASSING:", t, "(failed)" if t in failed else "(absent)")
print("wall_s_per_run (baseline):", base.get("wall_s_per_run"), " always_fail:", base.get("always_fail"), " flaky:", base.get("flaky"))
sys.exit(1 if missing else 0)
