//! F5: dropping the last Sender is a visible operation (a receiver observes Disconnected instead of Empty), but no
//! scheduling point precedes it: `send; drop(tx)` is one atomic step, so the SC outcome "message received, then the
//! channel still connected and empty" is never produced.
use shuttle::sync::mpsc::channel;
use shuttle::thread;
use std::collections::HashSet;
use std::sync::{Arc, Mutex};

#[test]
fn receiver_can_observe_sent_message_before_sender_is_dropped() {
    let outcomes = Arc::new(Mutex::new(HashSet::new()));
    let o2 = outcomes.clone();
    shuttle::check_dfs(
        move || {
            let (tx, rx) = channel::<u8>();
            let t = thread::spawn(move || {
                tx.send(1).unwrap();
                drop(tx);
            });
            let first = rx.try_recv();
            let second = rx.try_recv();
            o2.lock().unwrap().insert(format!("{first:?},{second:?}"));
            t.join().unwrap();
        },
        None,
    );
    let seen = outcomes.lock().unwrap();
    assert!(
        seen.contains("Ok(1),Err(Empty)"),
        "SC allows: send; try_recv == Ok(1); try_recv == Empty; drop(tx) -- but it was never produced; outcomes: {seen:?}"
    );
}
