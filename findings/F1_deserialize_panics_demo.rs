use shuttle_engine::scheduler::serialization::deserialize_schedule;
#[test] fn empty() { assert!(deserialize_schedule("").is_none()); }
#[test] fn whitespace_only() { assert!(deserialize_schedule(" \n").is_none()); }
#[test] fn cut_short_steps() { assert!(deserialize_schedule("910100").is_none()); } // 1 step announced, no step bytes
#[test] fn cut_short_task_id() { assert!(deserialize_schedule("91400100").is_none()); } // 64-bit ids, 1 step, 1 byte of data
#[test] fn absurd_width() { assert!(deserialize_schedule("91ff01010000").is_none()); } // task_id_bits = 255
#[test] fn zero_width() { assert!(deserialize_schedule("9100010000").is_none()); } // task_id_bits = 0 with a task step
#[test] fn absurd_length() { assert!(deserialize_schedule("9101ffffffffffffffffff0100").is_none()); } // len = u64::MAX
