// ---- cfg(kani) twins of the three lazily initialised thread-locals (see execution.rs.rules) ----
#[cfg(kani)]
pub struct KaniTls<T: 'static> {
    cell: std::cell::UnsafeCell<Option<T>>,
    init: fn() -> T,
}
#[cfg(kani)]
unsafe impl<T> Sync for KaniTls<T> {}
#[cfg(kani)]
impl<T> KaniTls<T> {
    pub const fn new(init: fn() -> T) -> Self {
        Self { cell: std::cell::UnsafeCell::new(None), init }
    }
    pub fn with<F, R>(&'static self, f: F) -> R
    where
        F: FnOnce(&T) -> R,
    {
        // single verification thread: plain lazy initialisation
        let slot = unsafe { &mut *self.cell.get() };
        if slot.is_none() {
            *slot = Some((self.init)());
        }
        f(slot.as_ref().unwrap())
    }
    pub fn try_with<F, R>(&'static self, f: F) -> Result<R, std::thread::AccessError>
    where
        F: FnOnce(&T) -> R,
    {
        Ok(self.with(f))
    }
}
#[cfg(kani)]
static CURRENT_SCHEDULE: KaniTls<CurrentSchedule> = KaniTls::new(CurrentSchedule::default);
#[cfg(kani)]
#[allow(deprecated)]
pub static TASK_ID_TO_TAGS: KaniTls<RefCell<HashMap<TaskId, Arc<dyn Tag>>>> =
    KaniTls::new(|| RefCell::new(HashMap::with_hasher(crate::verif_support::fixed_random_state())));
#[cfg(kani)]
pub static LABELS: KaniTls<RefCell<HashMap<TaskId, Labels>>> =
    KaniTls::new(|| RefCell::new(HashMap::with_hasher(crate::verif_support::fixed_random_state())));
