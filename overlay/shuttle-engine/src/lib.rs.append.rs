#[cfg(kani)]
pub mod verif_support {
    //! Shared helpers for the /verif Kani harnesses (cfg(kani) only).

    /// Canary: a deliberately false obligation. The driver requires this harness to FAIL on every run;
    /// if it ever "verifies", the lane is vacuous and no result is believed.
    #[kani::proof]
    fn verif_canary_must_fail() {
        let x: u8 = kani::any();
        assert!(x != 77, "canary");
    }

    /// Fixed keys for `RandomState::new` (the real one performs a getrandom syscall).
    pub fn fixed_random_state() -> std::hash::RandomState {
        // SAFETY: RandomState is two u64 keys.
        unsafe { std::mem::transmute::<(u64, u64), std::hash::RandomState>((0u64, 0u64)) }
    }

    pub fn stub_false() -> bool {
        false
    }

    /// stand-in for std::io::_eprint / _print: formatting to stderr is irrelevant to every contract here and costs
    /// CBMC minutes of string-searching loops
    pub fn noop_print(_args: std::fmt::Arguments<'_>) {}

    pub fn noop_format(_args: std::fmt::Arguments<'_>) -> String {
        String::new()
    }

    /// Allocation never fails in these harnesses (Kani's allocator model does not fail); the real handler prints to
    /// stderr through the formatting machinery, which CBMC's symbolic execution walks through even on infeasible paths.
    pub fn stub_alloc_error(_layout: std::alloc::Layout) -> ! {
        kani::assume(false);
        unreachable!()
    }

    // ---- stand-in for thread::switch() (DESIGN.md 2.2.1): counts choice points and runs the environment ----
    pub static mut SWITCH_COUNT: usize = 0;
    pub static mut ENV: Option<fn()> = None;
    pub fn verif_switch() {
        unsafe {
            SWITCH_COUNT += 1;
            if let Some(f) = ENV {
                f()
            }
        }
    }
    pub fn switches() -> usize {
        unsafe { SWITCH_COUNT }
    }

    // ---- assumed contract for TaskSet (a BitVec: bitvec's pointer encoding is out of CBMC's reach) ----
    // One TaskSet per harness; its contents live in this model. insert/remove/contains/is_empty have set semantics.
    use crate::runtime::task::{TaskId, TaskSet};
    pub static mut TS_MODEL: [bool; 4] = [false; 4];
    pub fn ts_insert(_s: &mut TaskSet, tid: TaskId) -> bool {
        let i: usize = tid.into();
        unsafe {
            let old = TS_MODEL[i];
            TS_MODEL[i] = true;
            !old
        }
    }
    pub fn ts_remove(_s: &mut TaskSet, tid: TaskId) -> bool {
        let i: usize = tid.into();
        unsafe {
            let old = TS_MODEL[i];
            TS_MODEL[i] = false;
            old
        }
    }
    pub fn ts_contains(_s: &TaskSet, tid: TaskId) -> bool {
        let i: usize = tid.into();
        unsafe { TS_MODEL[i] }
    }
    pub fn ts_is_empty(_s: &TaskSet) -> bool {
        unsafe { !(TS_MODEL[0] || TS_MODEL[1] || TS_MODEL[2] || TS_MODEL[3]) }
    }
    pub fn ts_len() -> usize {
        unsafe { TS_MODEL[0] as usize + TS_MODEL[1] as usize + TS_MODEL[2] as usize + TS_MODEL[3] as usize }
    }
}
