#[cfg(kani)]
mod verif_atomic_bool {
    //! C04: every public operation of shuttle's AtomicBool agrees with std's AtomicBool (result and final value) from
    //! every start value and operands, and is preceded by exactly one choice point.
    use super::*;
    use crate::sync::atomic::Atomic;
    use crate::sync::{ResourceSignature, ResourceType};
    use shuttle_engine::runtime::execution::verif_exec::{new_store, run_in, state_with, use_store, SpecSched};
    use shuttle_engine::runtime::task::TaskState;
    use shuttle_engine::verif_support::{fixed_random_state, stub_false, switches, verif_switch};
    use std::cell::RefCell;
    use std::rc::Rc;
    use std::sync::atomic::Ordering::SeqCst;

    const SIG: ResourceSignature = ResourceSignature::new_const(ResourceType::Atomic);
    const BLOCKED: TaskState = TaskState::Blocked { allow_spurious_wakeups: false };

    #[kani::proof]
    #[kani::solver(minisat)]
    #[kani::unwind(5)]
    #[kani::stub(shuttle_engine::runtime::thread::continuation::switch, verif_switch)]
    #[kani::stub(std::hash::RandomState::new, fixed_random_state)]
    #[kani::stub(shuttle_engine::backtrace_enabled, stub_false)]
    fn c04_atomic_bool_agrees_with_std() {
        let mut store = new_store();
        use_store(&mut store);
        let st = state_with([TaskState::Runnable, BLOCKED, BLOCKED], 0, Rc::new(RefCell::new(SpecSched::new())));
        let v0: bool = kani::any();
        let a: bool = kani::any();
        let b: bool = kani::any();
        let op: u8 = kani::any();
        kani::assume(op < 10);
        let x = AtomicBool { inner: Atomic { inner: RefCell::new(v0), clock: RefCell::new(None), signature: SIG } };
        let y = std::sync::atomic::AtomicBool::new(v0);
        let (rx, _cell) = run_in(st, || match op {
            0 => (true, x.load(SeqCst)),
            1 => { x.store(a, SeqCst); (true, a) }
            2 => (true, x.swap(a, SeqCst)),
            3 => match x.compare_exchange(a, b, SeqCst, SeqCst) { Ok(v) => (true, v), Err(v) => (false, v) },
            4 => match x.compare_exchange_weak(a, b, SeqCst, SeqCst) { Ok(v) => (true, v), Err(v) => (false, v) },
            5 => (true, x.fetch_and(a, SeqCst)),
            6 => (true, x.fetch_nand(a, SeqCst)),
            7 => (true, x.fetch_or(a, SeqCst)),
            8 => (true, x.fetch_xor(a, SeqCst)),
            _ => match x.fetch_update(SeqCst, SeqCst, |o| if o == a { None } else { Some(o ^ b) }) { Ok(v) => (true, v), Err(v) => (false, v) },
        });
        // (std's compare_exchange_weak may fail spuriously; shuttle's never does, which std's contract permits: compare
        // with the strong version)
        let ry = match op {
            0 => (true, y.load(SeqCst)),
            1 => { y.store(a, SeqCst); (true, a) }
            2 => (true, y.swap(a, SeqCst)),
            3 | 4 => match y.compare_exchange(a, b, SeqCst, SeqCst) { Ok(v) => (true, v), Err(v) => (false, v) },
            5 => (true, y.fetch_and(a, SeqCst)),
            6 => (true, y.fetch_nand(a, SeqCst)),
            7 => (true, y.fetch_or(a, SeqCst)),
            8 => (true, y.fetch_xor(a, SeqCst)),
            _ => match y.fetch_update(SeqCst, SeqCst, |o| if o == a { None } else { Some(o ^ b) }) { Ok(v) => (true, v), Err(v) => (false, v) },
        };
        assert!(rx == ry);
        assert!(unsafe { x.raw_load() } == y.load(SeqCst));
        assert!(switches() == 1);
        kani::cover!(op == 3 && rx.0);
        kani::cover!(op == 9 && !rx.0);
        std::mem::forget(x);
    }
}
