M=/var/tmp/send_mut; rm -rf $M; mkdir -p $M/shuttle-std/src/sync; F=shuttle-std/src/sync/mpsc.rs
cd /verif
run(){ python3 -m pipeline.vdev mpsc_recv $M 2>&1 | grep -E "^unit|ERR|AnchorLost" | cut -c1-160; }
m(){ cp /repo/$F $M/$F; echo "== $1"; python3 - "$2" "$3" <<'E'
import sys
p='/var/tmp/send_mut/shuttle-std/src/sync/mpsc.rs'
s=open(p).read()
i=s.index("fn sender_must_block"); j=s.index("fn recv(&self)")
assert sys.argv[1] in s[i:j], "pattern not found"
s=s[:i]+s[i:j].replace(sys.argv[1], sys.argv[2],1)+s[j:]
open(p,'w').write(s)
E
run; }
m "is_full off by one" "state.messages.len() >= std::cmp::max(bound, 1)" "state.messages.len() > std::cmp::max(bound, 1)"
m "ignores queued senders" "is_full || !state.waiting_senders.is_empty() || (is_rendezvous" "is_full || (is_rendezvous"
m "message pushed at the front" "state.messages.push(TimestampedValue::new(message, clock.clone()));" "state.messages.insert(0, TimestampedValue::new(message, clock.clone()));"
m "next sender woken when full" "if state.messages.len() < bound {" "if state.messages.len() <= bound {"
m "receiver not woken" "                s.get_mut(tid).unblock();

" ""
m "return queue popped from the back" "let recv_clock = receiver_clock.remove(0);" "let recv_clock = receiver_clock.pop().unwrap();"
m "rendezvous clock not absorbed" "if self.is_rendezvous() {
                    let recv_clock" "if !self.is_rendezvous() {
                    let recv_clock"
m "Full before Disconnected" "        if state.known_receivers == 0 {
            // No receivers are left, so the channel is disconnected.  Stop and return failure.
            return Err(TrySendError::Disconnected(message));
        }

        if should_block {
            if !can_block {
                return Err(TrySendError::Full(message));
            }
" "        if should_block {
            if !can_block {
                return Err(TrySendError::Full(message));
            }
"
rm -rf $M
