#[cfg(kani)]
impl StorageMap {
    /// `StorageMap::new()` with fixed hasher keys (the real `RandomState::new` performs a getrandom syscall).
    pub(crate) fn verif_new() -> Self {
        Self {
            locals: HashMap::with_hasher(crate::verif_support::fixed_random_state()),
            order: VecDeque::new(),
        }
    }
}
#[cfg(kani)]
impl StorageMap {
    pub(crate) fn verif_is_empty(&self) -> bool {
        self.locals.is_empty() && self.order.is_empty()
    }
}
