#[cfg(all(kani, feature = "vector-clocks"))]
mod verif_clock {
    //! C15 companions of the Verus unit (run on the un-rewritten code; give concrete counterexamples): lengths <= 3.
    use super::*;

    /// a clock of the given (concrete) length with arbitrary entries -- symbolic lengths exhaust memory
    fn any_clock(len: usize) -> VectorClock {
        let vals: [u32; 3] = kani::any();
        VectorClock::from(&vals[..len])
    }

    fn get0(c: &VectorClock, i: usize) -> u32 {
        if i < c.time.len() { c.time[i] } else { 0 }
    }

    /// C15.clock.update_is_join [Kb len <= 3]: update == pointwise max with zero extension, length = max of lengths
    #[kani::proof]
    #[kani::unwind(5)]
    fn c15_clock_update_is_join() {
        let mut a = any_clock(2);
        let b = any_clock(3);
        let a0 = a.clone();
        a.update(&b);
        assert!(a.time.len() == a0.time.len().max(b.time.len()));
        let i: usize = kani::any();
        kani::assume(i < 3);
        assert!(get0(&a, i) == get0(&a0, i).max(get0(&b, i)));
        kani::cover!(a0.time.len() < b.time.len());
    }

    /// C15.clock.partial_cmp_exact [Kb len <= 3]
    #[kani::proof]
    #[kani::unwind(5)]
    fn c15_clock_partial_cmp_exact() {
        let a = any_clock(2);
        let b = if kani::any() { any_clock(2) } else { any_clock(3) };
        let (na, nb) = (a.time.len(), b.time.len());
        let mut le = na <= nb;
        let mut ge = na >= nb;
        let mut i = 0;
        while i < 3 {
            if i < na && i < nb {
                le = le && a.time[i] <= b.time[i];
                ge = ge && a.time[i] >= b.time[i];
            }
            i += 1;
        }
        let r = a.partial_cmp(&b);
        let exp = if le && ge { Some(Ordering::Equal) } else if le { Some(Ordering::Less) } else if ge { Some(Ordering::Greater) } else { None };
        assert!(r == exp);
        kani::cover!(r.is_none());
        kani::cover!(r == Some(Ordering::Less) && na == nb);
    }

    /// C15.clock.extend_increment [Kb len <= 3]: extend(id) zero-extends to length id+1 and changes no entry;
    /// increment(id) adds one to entry id only.
    #[kani::proof]
    #[kani::unwind(6)]
    fn c15_clock_extend_increment() {
        let mut a = any_clock(2);
        let a0 = a.clone();
        // what spawn does: the new task's id is the current number of tasks (>= the clock's length)
        let id: usize = a.time.len() + if kani::any() { 1 } else { 0 };
        a.extend(TaskId(id));
        assert!(a.time.len() == id + 1);
        let i: usize = kani::any();
        kani::assume(i <= id);
        assert!(a.time[i] == get0(&a0, i));
        let j: usize = kani::any();
        kani::assume(j <= id && a.time[j] < u32::MAX);
        let before = a.clone();
        a.increment(TaskId(j));
        assert!(a.time[j] == before.time[j] + 1);
        assert!(a.time[i] == if i == j { before.time[i] + 1 } else { before.time[i] });
        kani::cover!(id == 3);
    }
}
